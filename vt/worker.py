"""Worker process: runs one obligation (one shard) and writes a JSON result.

kind == "ch": the harness function (PEP316 contract in its docstring) is executed symbolically by
              CrossHair (z3 back end).  Verdicts: confirmed / refuted / inconclusive / pre_unsat.
kind == "py": the function issues direct SMT queries (z3 API) itself and returns a result dict.
"""
import importlib
import json
import os
import sys
import time
import traceback


def run_ch(fn, timeout, per_path):
    from crosshair.core_and_libs import analyze_function, run_checkables
    from crosshair.options import AnalysisOptionSet, AnalysisKind
    from crosshair.statespace import MessageType
    opts = AnalysisOptionSet(
        analysis_kind=[AnalysisKind.PEP316],
        per_condition_timeout=float(timeout),
        per_path_timeout=float(per_path),
        max_uninteresting_iterations=sys.maxsize,
        report_all=True,
    )
    checkables = analyze_function(fn, opts)
    if not checkables:
        return {"verdict": "harness_error", "message": "no conditions parsed"}
    msgs = run_checkables(checkables)
    worst = None
    for m in msgs:
        if worst is None or m.state > worst.state:
            worst = m
    if worst is None:
        return {"verdict": "harness_error", "message": "no messages"}
    st = worst.state
    verdict = {
        MessageType.CONFIRMED: "confirmed",
        MessageType.CANNOT_CONFIRM: "inconclusive",
        MessageType.PRE_UNSAT: "pre_unsat",
        MessageType.POST_FAIL: "refuted",
        MessageType.EXEC_ERR: "refuted",
        MessageType.POST_ERR: "harness_error",
        MessageType.SYNTAX_ERR: "harness_error",
        MessageType.IMPORT_ERR: "harness_error",
    }[st]
    return {"verdict": verdict, "state": st.name, "message": worst.message[:2000],
            "traceback": (worst.traceback or "")[-3000:]}


def main():
    module, func, kind, timeout, per_path, outfile = sys.argv[1:7]
    t0 = time.time()
    from vt import rt
    rt.reset()
    res = {}
    try:
        from vt import common
        common.setup_annet()
        mod = importlib.import_module(module)
        fn = getattr(mod, func)
        if kind == "ch":
            res = run_ch(fn, timeout, per_path)
        else:
            res = fn() or {}
            res.setdefault("verdict", "confirmed")
    except BaseException as e:  # noqa
        res = {"verdict": "harness_error", "message": "%s: %s" % (type(e).__name__, e),
               "traceback": traceback.format_exc()[-4000:]}
    d = rt.dump()
    for k, v in d.items():
        if k == "counters":
            c = dict(v)
            c.update(res.get("counters", {}))
            res["counters"] = c
        else:
            res.setdefault(k, v)
    res["wall_s"] = round(time.time() - t0, 3)
    res["shard"] = rt.SHARD
    with open(outfile, "w") as f:
        json.dump(res, f, default=str)


if __name__ == "__main__":
    main()
