"""RefOffside: reference offside-rule parser, independent of annet.

A line goes under the nearest preceding line with strictly smaller column.  Columns are relative to the
first line of a section.  A dedent must land on a column at which an enclosing (still open) line started,
otherwise the text is rejected; a column left of the section's first line is rejected.  `reset` starts a
new section (Huawei '#' at column 0).  `skip` lines (blank/comment) are ignored.
"""

TEXT, SKIP, RESET = 0, 1, 2


class RefError(Exception):
    pass


def ref_paths(items):
    """items: list of (kind, column, label).  Returns list of label paths, one per TEXT line.
    Works on symbolic ints for `column` (only comparisons / subtraction)."""
    cols = []
    labels = []
    base = None
    out = []
    for (kind, n, label) in items:
        if kind == SKIP:
            continue
        if kind == RESET:
            cols = []
            labels = []
            base = None
            continue
        if base is None:
            base = n
        col = n - base
        if col < 0:
            raise RefError("left of section start")
        # close every open line that is not strictly left of this one
        while cols and cols[-1] >= col:
            last = cols.pop()
            labels.pop()
            if last == col:
                break
            if not cols or cols[-1] < col:
                # we jumped over `col`: no enclosing line started there
                raise RefError("inconsistent dedent")
        cols.append(col)
        labels.append(label)
        out.append(tuple(labels))
    return out


def classify(line, comments=("!", "#")):
    stripped = line.strip()
    if "#" in comments and line[:1] == "#":
        return RESET
    if not stripped or any(stripped.startswith(c) for c in comments):
        return SKIP
    return TEXT


def indent_of(line):
    n = 0
    while n < len(line) and line[n] in " \t":
        n += 1
    return n


def ref_parse(text, comments=("!", "#")):
    """Reference parse of a text into a nested plain dict (insertion ordered); raises RefError."""
    items = []
    for line in text.split("\n"):
        if line == "":
            continue  # CommonFormatter.split drops empty strings
        k = classify(line, comments)
        items.append((k, indent_of(line), line.strip()))
    tree = {}
    for path in ref_paths(items):
        cur = tree
        for key in path:
            cur = cur.setdefault(key, {})
    return tree
