"""RefAcl: reference semantics of annet ACL texts, written from the property statements (C02/C06/C10) and
independent of annet/annlib/rbparser/acl.py and patching.match_row_to_acl.

ACL text: indented rule rows with params %global, %cant_delete=0/1, %prio, %generator_names.  The same row written
several times at one level (by several generators) is ONE rule whose children are the union and whose cant_delete
flags are collected per writer.  `interface...` rows are cant_delete by default.

A configuration row is COVERED at a level iff a local rule or an inherited global rule matches it (RefRule), directly
or in its reverse form ("<negation word> <row>").  Children of a row matched directly by local rules are governed by the
union of those rules' children plus the globals; children of a row covered only by a global rule (or only in reverse
form) are governed by the globals alone.  A row covered only in reverse form by rules that are all cant_delete is refused.

Competing matches are ranked as the ACL language defines it (see ALevel.classify): %prio, then the shared-symbol
specificity of the pattern, then direct-before-negated / local-before-global / text order.
"""
import re

from vt.oracles.rule import ref_rule_regex


class Ambiguous(Exception):
    pass


class ARule:
    def __init__(self, row, prefix):
        self.row = row
        self.is_global = False
        self.prio = 0
        self.cant_delete = []   # one flag per writer
        self.writers = []       # generator names, parallel to cant_delete
        self.children = []      # list[ARule]
        src, fl = ref_rule_regex(row)
        self.rx = re.compile(src, fl)
        rrow = row[len(prefix) + 1:] if row.startswith(prefix + " ") else prefix + " " + row
        src, fl = ref_rule_regex(rrow)
        self.rrx = re.compile(src, fl)

    def __repr__(self):
        return "ARule(%r%s cd=%s)" % (self.row, " global" if self.is_global else "", self.cant_delete)


def _parse_lines(text):
    items = []
    for ln in text.split("\n"):
        if not ln.strip() or ln.strip().startswith("#"):
            continue
        ind = len(ln) - len(ln.lstrip(" "))
        body = ln.strip()
        params = {}
        if "%" in body:
            i = body.index("%")
            for m in re.finditer(r"%([a-zA-Z_]\w*)(?:=(\S*))?", body[i:]):
                params[m.group(1)] = m.group(2) if m.group(2) not in (None, "") else "1"
            body = body[:i].strip()
        items.append((ind, re.sub(r"\s+", " ", body), params, ln.strip()))
    return items


def parse_acl(texts, prefix):
    """texts: list of (generator_name, acl_text) -> list[ARule] (merged top level)"""
    root = []

    def find(level, row):
        for r in level:
            if r.row == row:
                return r
        return None

    for (gname, text) in texts:
        items = _parse_lines(text)
        if not items:
            continue
        base = items[0][0]
        stack = [(-1, root)]  # (indent, children list)
        seen_raw = set()        # the same raw line written twice in ONE text is one rule line (the text is parsed as a tree)
        for (ind, row, params, raw) in items:
            ind -= base
            while stack and stack[-1][0] >= ind:
                stack.pop()
            level = stack[-1][1]
            r = find(level, row)
            if r is None:
                r = ARule(row, prefix)
                level.append(r)
            again = (id(level), raw) in seen_raw
            seen_raw.add((id(level), raw))
            if again:
                stack.append((ind, r.children))
                continue
            if _true(params.get("global")):
                r.is_global = True
            if "prio" in params:
                r.prio = max(r.prio, int(params["prio"]))
            if "cant_delete" in params:
                flags = [_true(x) for x in re.split(r"[,\t ]+", params["cant_delete"]) if x != ""]
            else:
                flags = [row.startswith("interface")]
            r.cant_delete.extend(flags)
            r.writers.extend([gname] * len(flags))
            stack.append((ind, r.children))
    return root


def _true(v):
    return v is not None and v.lower() in ("1", "true", "yes", "y", "on")


class ALevel:
    def __init__(self, local, globals_):
        self.local = list(local)
        self.globals = list(globals_)

    @classmethod
    def root(cls, rules):
        return cls([r for r in rules if not r.is_global], [r for r in rules if r.is_global])

    def classify(self, row):
        """-> (kind, rules, child_level);  kind in {None, 'local', 'global', 'reverse'}

        Competing matches are ranked the way the ACL language defines it: higher %prio first, then the more SPECIFIC
        pattern (share of the row's distinct symbols that occur in the pattern text), and among equals the order
        direct-before-negated, local-before-%global, ACL text order.  The first match governs the row: its cant_delete
        flags, whether the row is a removal request, and whether children rules apply at all (only below a direct local
        match; then the children of ALL direct local matches are united)."""
        cands = []
        for (negated, key) in ((False, "rx"), (True, "rrx")):
            for (is_global, rules) in ((False, self.local), (True, self.globals)):
                for r in rules:
                    pat = getattr(r, key)
                    if pat.match(row):
                        share = len(set(row) & set(pat.pattern)) / len(row)
                        cands.append(((r.prio, share), negated, is_global, r))
        if not cands:
            return None, [], None
        cands.sort(key=lambda c: c[0], reverse=True)   # stable: ties keep the collection order above
        _, negated, is_global, first = cands[0]
        if negated:
            return "reverse", [first], ALevel([], self.globals)
        if is_global:
            return "global", [first], ALevel([], self.globals)
        dl = [first] + [r for (_m, n, g, r) in cands[1:] if not n and not g]
        loc, glo = [], []
        for r in dl:
            for c in r.children:
                (glo if c.is_global else loc).append(c)
        return "local", dl, ALevel(_uniq(loc), _uniq(glo + self.globals))


class _Undecided:
    """child level that depends on annet's specificity heuristic: usable only if never consulted"""

    def __init__(self, what):
        self.what = what

    def classify(self, row):
        raise Ambiguous(self.what)


def _uniq(rs):
    out = []
    for r in rs:
        if r not in out:
            out.append(r)
    return out


def ref_filter(tree, level, path=()):
    """-> (filtered tree (plain nested list of [row, children]), list of uncovered paths in input order)"""
    out = []
    uncovered = []
    for row, sub in tree.items():
        kind, rules, child = level.classify(row)
        if kind is None:
            uncovered.append(path + (row,))
            continue
        if kind == "reverse" and all(all(r.cant_delete) for r in rules[:1]):
            # refused: a removal request against rules that all forbid deletion
            continue
        f, u = ref_filter(sub or {}, child, path + (row,))
        out.append([row, f])
        uncovered.extend(u)
    return out, uncovered


def covered_path(level, path, prefix, exit_words=()):
    """is every element of a command path covered level by level (direct or reverse form; exit words excepted)?"""
    for i, row in enumerate(path):
        if i == len(path) - 1 and i > 0 and row in exit_words:
            return True
        kind, rules, child = level.classify(row)
        if kind is None:
            return False
        level = child
    return True
