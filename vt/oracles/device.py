"""RefDevice: a reference device that holds one line per (rule, key) and executes command paths.

Independent of annet's patching code: it has its own parser for the (synthetic) rulebook text, uses the
reference rule matcher (vt.oracles.rule) and implements the device semantics stated in C01:

  executing path (b1 .. bk-1, c):
    * enter (create if missing) blocks b1..bk-1;  a block all of whose child rules are %rewrite is emptied each time
      a patch visit enters it (the device replaces such objects wholesale);
    * c == block-exit word                  -> leave the block, nothing else;
    * c == <prefix> <rule words with key>   -> delete the line holding that (rule, key) at this level, with its subtree
                                               (absent => no-op);
    * otherwise c instantiates rule R with key K -> replace the line holding (R, K) at this level (subtree kept only if
      the text is identical, a changed header starts a fresh object) or append a new line.
"""
import re
from collections import OrderedDict as odict

from vt.oracles.rule import ref_rule_regex


class DeviceError(Exception):
    pass


class Rule:
    def __init__(self, row, params, children):
        self.row = row
        self.params = params
        self.children = children  # list[Rule]
        src, fl = ref_rule_regex(row)
        self.rx = re.compile(src, fl)

    @property
    def is_global(self):
        return self.params.get("global", "0") not in ("0", "", "false")

    @property
    def logic(self):
        if self.flag("ordered"):
            return "common.ordered"
        if self.flag("rewrite"):
            return "common.rewrite"
        return self.params.get("logic", "common.default")

    def flag(self, name):
        return self.params.get(name, "0") not in ("0", "", "false")

    def __repr__(self):
        return "Rule(%r)" % self.row


def parse_rules(text):
    """indentation-based (4 spaces) rule text -> list[Rule]; '%name[=value]' params after the row"""
    lines = [ln for ln in text.split("\n") if ln.strip() and not ln.strip().startswith("#")]
    pos = [0]

    def block(indent):
        out = []
        while pos[0] < len(lines):
            ln = lines[pos[0]]
            ind = len(ln) - len(ln.lstrip(" "))
            if ind < indent:
                break
            if ind > indent:
                raise ValueError("bad indent: %r" % ln)
            pos[0] += 1
            body = ln.strip()
            params = {}
            if "%" in body:
                i = body.index("%")
                for m in re.finditer(r"%([a-zA-Z_]\w*)(?:=(\S*))?", body[i:]):
                    params[m.group(1)] = m.group(2) if m.group(2) not in (None, "") else "1"
                body = body[:i].strip()
            row = re.sub(r"\s+", " ", body)
            children = block(indent + 4)
            out.append(Rule(row, params, children))
        return out
    return block(0)


class Level:
    """rules visible at one block level: local rules first, then inherited/global ones"""

    def __init__(self, local, globals_):
        self.local = list(local)
        self.globals = list(globals_)

    @classmethod
    def root(cls, rules):
        return cls([r for r in rules if not r.is_global], [r for r in rules if r.is_global])

    def match(self, row):
        """-> (rule, key, child_level) or (None, None, None)"""
        hits = [(r, False) for r in self.local if r.rx.match(row)] + [(r, True) for r in self.globals if r.rx.match(row)]
        if not hits:
            return None, None, None
        first, first_is_global = hits[0]
        key = first.rx.match(row).groups()
        loc, glo = [], []
        if not first_is_global:
            for (r, is_g) in hits:
                if not is_g:
                    for c in r.children:
                        (glo if c.is_global else loc).append(c)
        child = Level(_uniq(loc), _uniq(glo + self.globals))
        return first, key, child

    def all_rewrite(self):
        rs = self.local + self.globals
        return bool(rs) and all(r.flag("rewrite") for r in rs)


def _uniq(rs):
    seen = []
    for r in rs:
        if r not in seen:
            seen.append(r)
    return seen


class Device:
    def __init__(self, tree, rules, prefix, exit_word):
        self.tree = _copy(tree)
        self.root = Level.root(rules)
        self.prefix = prefix
        self.exit = exit_word
        self.trace = []

    def _find(self, tree, level, rule, key):
        for row in tree:
            r, k, _ = level.match(row)
            if r is rule and k == key:
                return row
        return None

    def run(self, paths):
        open_stack = []
        for path in paths:
            path = tuple(path)
            blocks = path[:-1]
            # close blocks that this path is not inside
            n = 0
            while n < len(open_stack) and n < len(blocks) and open_stack[n] == blocks[n]:
                n += 1
            del open_stack[n:]
            tree, level = self.tree, self.root
            for i, b in enumerate(blocks):
                rule, key, child = level.match(b)
                if rule is None:
                    raise DeviceError("unknown block %r in %r" % (b, path))
                cur = self._find(tree, level, rule, key)
                if cur is None:
                    tree[b] = odict()
                    cur = b
                elif cur != b:
                    _rename(tree, cur, b, odict())
                    cur = b
                if i >= len(open_stack):
                    open_stack.append(b)
                    if child.all_rewrite():
                        tree[cur] = odict()
                tree, level = tree[cur], child
            c = path[-1]
            if blocks and self.exit and c == self.exit:
                if open_stack:
                    open_stack.pop()
                continue
            if self.prefix and c.startswith(self.prefix + " "):
                pos = c[len(self.prefix) + 1:]
                rule, key, _ = level.match(pos)
                if rule is not None:
                    cur = self._find(tree, level, rule, key)
                    if cur is not None:
                        del tree[cur]
                    continue
                # not a removal of anything we know: fall through and treat as a plain command
            rule, key, child = level.match(c)
            if rule is None:
                raise DeviceError("unknown command %r in %r" % (c, path))
            cur = self._find(tree, level, rule, key)
            if cur is None:
                tree[c] = odict()
            elif cur != c:
                _rename(tree, cur, c, odict())
        return self.tree


def _rename(tree, old, new, subtree):
    items = [(new, subtree) if k == old else (k, v) for k, v in tree.items()]
    tree.clear()
    for k, v in items:
        tree[k] = v


def _copy(t):
    return odict((k, _copy(v)) for k, v in (t or {}).items())


# ---------------------------------------------------------------- logic-adjusted target
def target(old, new, level):
    """What the device must hold after the patch old->new (see DESIGN.md §3 RefDevice):
    new, except that `permanent` lines are never deleted (childless ones stay untouched, blocks stay with their
    children removed) and `ignore_changes` lines keep the old text when only the value changed."""
    out = odict()
    old = old or odict()
    new = new or odict()
    slots = []  # (rule, key) in order of first appearance, old first

    def slot_of(row):
        r, k, child = level.match(row)
        return r, k, child

    seen = {}
    for side, t in (("old", old), ("new", new)):
        for row in t:
            r, k, child = slot_of(row)
            if r is None:
                continue  # rows no rule knows are invisible to annet; they stay as they are (handled by caller)
            sk = (id(r), k)
            if sk not in seen:
                seen[sk] = {"rule": r, "key": k, "child": child, "old": None, "new": None}
                slots.append(sk)
            seen[sk][side] = row
    res_new_order = []
    keep_old = []
    for sk in slots:
        s = seen[sk]
        r, o, n, child = s["rule"], s["old"], s["new"], s["child"]
        logic = r.logic
        if o is not None and n is not None and o == n:
            res_new_order.append((n, target(old[o], new[n], child)))
        elif n is not None and o is None:
            res_new_order.append((n, _copy(new[n])))
        elif o is not None and n is None:
            if logic.endswith(".permanent"):
                keep_old.append((o, target(old[o], odict(), child) if old[o] else odict()))
            # else deleted
        else:  # value change
            if logic.endswith(".permanent"):
                keep_old.append((o, target(old[o], odict(), child) if old[o] else odict()))
            elif logic.endswith(".ignore_changes"):
                keep_old.append((o, _copy(old[o])))
            else:
                res_new_order.append((n, _copy(new[n])))
    # order: new's order for rows of new; kept old rows first (they were never touched)
    order_new = {row: i for i, row in enumerate(new)}
    res_new_order.sort(key=lambda kv: order_new.get(kv[0], 0))
    for k, v in keep_old + res_new_order:
        out[k] = v
    # rows unknown to every rule stay where they were
    for row in old:
        if level.match(row)[0] is None and row not in out:
            out[row] = _copy(old[row])
    return out


def same_config(a, b, level):
    """equality of two device states: unordered, except that rows governed by %ordered or %rewrite rules must appear in
    the same relative order"""
    a = a or {}
    b = b or {}
    if set(a) != set(b):
        return False
    oa = [r for r in a if _ordered(level, r)]
    ob = [r for r in b if _ordered(level, r)]
    if oa != ob:
        return False
    for row in a:
        r, k, child = level.match(row)
        if r is None:
            if _plain(a[row]) != _plain(b[row]):
                return False
        elif not same_config(a[row], b[row], child):
            return False
    return True


def _ordered(level, row):
    r, _, _ = level.match(row)
    # statement order is part of a %rewrite block's meaning as well (annet re-sends the block when only the order changed)
    return r is not None and (r.flag("ordered") or r.flag("rewrite"))


def _plain(t):
    return {k: _plain(v) for k, v in (t or {}).items()}
