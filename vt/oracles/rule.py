"""RefRule / RefReverse: the rule language as the property states it, written token by token and
independently of annet's substitution pipeline (annet/annlib/rbparser/syntax.py).

A rule row is a whitespace-separated sequence of tokens:
  literal word        the word itself (rule authors may use regex syntax inside a word; groups never capture)
  *                   exactly one word (maximal run of non-blank characters)         -> key slot
  */re/               one stretch matching re                                         -> key slot
  <name>              one \\w+ stretch, named
  ~   (last)          the non-empty rest of the line                                 -> key slot
  ...  (last)         anything may follow, no word boundary required
  ~/re/               re inline, no key slot, no boundary appended
The row matches a configuration line iff the line starts with the tokens in order, separated by blank runs,
and (unless the row ends in ~, ... or contains ~/re/) the last token ends at a word boundary (blank or end).
A `*` glued to the front of a word (`*foo`) is a key slot followed by literal text; `~`/`...` glued to the end of
the last word behave like the detached forms without the separating blank.
"""
import re


def _noncap(s):
    # every plain group becomes non-capturing; (?...) constructs are left alone
    out = []
    i = 0
    while i < len(s):
        if s[i] == "(" and not (i + 1 < len(s) and s[i + 1] == "?"):
            out.append("(?:")
        else:
            out.append(s[i])
        i += 1
    return "".join(out)


def _word(tok, has_star):
    """regex for one token (not the trailing ~ / ... part)"""
    if not has_star:
        # annet leaves rows without any '*' untouched (groups keep capturing); such rows have no placeholders
        body = tok
    else:
        body = _noncap(tok)
        # */re/ : the regex extends to the last '/' of the token
        i = body.find("*/")
        while i != -1:
            j = body.rfind("/")
            if j <= i + 1:
                break
            body = body[:i] + "(" + body[i + 2:j] + ")" + body[j + 1:]
            i = body.find("*/")
        if body.startswith("*"):
            body = r"([^\s]+)" + body[1:]
    body = re.sub(r"<(\w+)>", lambda m: r"(?P<%s>\w+)" % m.group(1), body)
    return body


def ref_rule_regex(row, flags=0):
    """(regex source, flags) of the reference matcher for rule row `row`"""
    if "(?i)" in row:
        row = row.replace("(?i)", "")
        flags |= re.IGNORECASE
    has_star = "*" in row
    lead = row[:len(row) - len(row.lstrip())]
    toks = row.split()
    tail = None
    inline = any(re.search(r"~/.+/", t) for t in toks)
    if toks and toks[-1].endswith("~"):
        tail = "rest"
        toks[-1] = toks[-1][:-1]
    elif toks and toks[-1].endswith("..."):
        tail = "open"
        toks[-1] = toks[-1][:-3]
    elif inline:
        tail = "inline"
        toks = [re.sub(r"~/(.+)/", r"\1", t) if re.search(r"~/.+/", t) else t for t in toks]
    detached = bool(toks) and toks[-1] == "" and len(toks) > 1
    if toks and toks[-1] == "":
        toks = toks[:-1]
    words = [_word(t, has_star) for t in toks]
    src = r"\s+".join(words)
    if tail == "rest":
        src += (r"\s+" if detached else "") + "(.+)"
    elif tail == "open":
        src += (r"\s+" if detached else "")
    elif tail == "inline":
        pass
    else:
        src += r"(?:\s|$)"
    if row != row.rstrip() and tail is None:
        pass
    return "^" + (r"\s+" if lead else "") + src, flags


def ref_reverse_template(row, prefix):
    """RefReverse: template of the removal command for rule `row` under vendor negation word `prefix`:
    drop the prefix if the rule starts with it, otherwise prepend it; placeholders become `{}` slots;
    a non-final ~ / ~/re/ part disappears."""
    if row.startswith(prefix + " "):
        row = row[len(prefix) + 1:]
    else:
        row = prefix + " " + row
    toks = row.split(" ")
    out = []
    for i, t in enumerate(toks):
        last = i == len(toks) - 1
        if last and t.endswith("~"):
            t = t[:-1] + "{}"
        out.append(t)
    s = " ".join(out)
    res = []
    i = 0
    while i < len(s):
        ch = s[i]
        if ch == "*":
            m = re.match(r"\*/\S+/", s[i:])
            if m:
                i += m.end()
            else:
                i += 1
            res.append("{}")
            continue
        if ch == "~":
            m = re.match(r"~(/\S+/)?", s[i:])
            # swallow blanks before it
            while res and res[-1].isspace():
                res.pop()
            i += m.end()
            continue
        res.append(ch)
        i += 1
    return "".join(res)


def ref_split_raw_rule(raw):
    """a raw rulebook line = row text followed by %name[=value] parameters, each introduced by a blank (space or TAB)
    before the '%'.  -> (row with blank runs collapsed, {name: value or "1"})"""
    m = re.search(r"\s%[a-zA-Z_]\w*", raw)
    params = {}
    row = raw
    if m:
        row = raw[:m.start()]
        for pm in re.finditer(r"\s%([a-zA-Z_]\w*)(?:=(\S*))?", raw[m.start():]):
            params[pm.group(1)] = pm.group(2) if pm.group(2) else "1"
    return re.sub(r"\s+", " ", row.strip()), params
