"""Orchestrator: python -m vt.run <Cxx> quick|thorough   |   python -m vt.run --replay <file>

Exit codes: 0 = nothing explored violated the property; 1 = VIOLATION (replayed on the real code);
2 = harness error (non-reproducing counterexample, vacuous harness, twin not refuted, crash).
"""
import concurrent.futures
import hashlib
import importlib
import json
import os
import subprocess
import sys
import tempfile
import time

# the tree this orchestrator lives in (normally /verif; a development checkout can be exercised in place)
ROOT = os.path.dirname(os.path.dirname(os.path.abspath(__file__)))
# VT_REPO (seed evaluation only): analyse a scratch worktree instead of /repo
PYPATH = ROOT + (os.pathsep + os.environ["VT_REPO"] if os.environ.get("VT_REPO") else "")
NCPU = int(os.environ.get("VT_JOBS", "0") or 0) or min(16, os.cpu_count() or 4)


def load_findings():
    p = os.path.join(ROOT, "known_findings.json")
    if not os.path.exists(p):
        return []
    with open(p) as f:
        return json.load(f).get("findings", [])


def harness_module(pid):
    return importlib.import_module("vt.harness.%s" % pid.lower())


def do_replay(path):
    from vt import common
    common.setup_annet()
    with open(path) as f:
        rp = json.load(f)
    want_seed = str(rp.get("hashseed") or "0")
    if os.environ.get("PYTHONHASHSEED", "") != want_seed:
        # the counterexample was found under another string hash seed: start again under that one
        os.execve(sys.executable, [sys.executable, "-m", "vt.run", "--replay", path], dict(os.environ, PYTHONHASHSEED=want_seed))
    mod = harness_module(rp["property"])
    if os.environ.get("VT_REPLAY_WITH_HISTORY"):
        # second attempt, in a fresh interpreter: first the cases the worker explored just before it, then the case itself
        for h in rp.get("history") or []:
            try:
                mod.replay(rp["obligation"], h)
            except Exception:  # noqa
                pass
        res = mod.replay(rp["obligation"], rp["case"])
        if not res.get("ok"):
            print("HISTORY-DEPENDENT: reproduces only after the %d preceding cases of the same process" % len(rp["history"]))
    else:
        res = mod.replay(rp["obligation"], rp["case"])
        if res.get("ok") and rp.get("history"):
            # does not reproduce alone; the attempt itself may have left state behind (caches), so the history is replayed
            # in another fresh interpreter
            os.execve(sys.executable, [sys.executable, "-m", "vt.run", "--replay", path], dict(os.environ, VT_REPLAY_WITH_HISTORY="1"))
    if res.get("ok"):
        print("REPLAY-OK property=%s obligation=%s (does not reproduce)" % (rp["property"], rp["obligation"]))
        return 0
    print("REPLAY-FAIL property=%s obligation=%s fingerprint=%s" % (rp["property"], rp["obligation"], res.get("fingerprint")))
    print("detail: %s" % json.dumps(res.get("detail"), default=str)[:3000])
    print("FINGERPRINT=%s" % res.get("fingerprint"))
    return 1


def run_jobs(jobs, workdir):
    """jobs: list of dict(name, module, func, kind, shard, nshards, timeout, per_path, env)"""
    pending = list(jobs)
    running = []
    results = []
    while pending or running:
        while pending and len(running) < NCPU:
            j = pending.pop(0)
            out = os.path.join(workdir, "%s.%d.json" % (j["name"].replace("/", "_"), j["shard"]))
            env = dict(os.environ)
            env["VT_WORKDIR"] = workdir   # scratch files of harnesses live here and go away with it
            env.update({"VT_SHARD": str(j["shard"]), "VT_NSHARDS": str(j["nshards"]), "VT_TIER": j["tier"],
                        "PYTHONPATH": PYPATH, "PYTHONDONTWRITEBYTECODE": "1",
                        # string hash seed of the workers: 0 unless an obligation (or VT_HASHSEED, for exploratory runs) says otherwise
                        "PYTHONHASHSEED": os.environ.get("VT_HASHSEED", "0")})
            env.update({k: str(v) for k, v in (j.get("env") or {}).items()})
            log = open(out + ".log", "w")
            p = subprocess.Popen([sys.executable, "-m", "vt.worker", j["module"], j["func"], j["kind"],
                                  str(j["timeout"]), str(j["per_path"]), out],
                                 env=env, stdout=log, stderr=subprocess.STDOUT, cwd=ROOT)
            running.append((p, j, out, time.time(), log))
        time.sleep(0.05)
        still = []
        for (p, j, out, t0, log) in running:
            rc = p.poll()
            hard = j["timeout"] * 1.5 + 120
            if rc is None and time.time() - t0 > hard:
                p.kill()
                p.wait()
                rc = -9
            if rc is None:
                still.append((p, j, out, t0, log))
                continue
            log.close()
            if os.path.exists(out):
                with open(out) as f:
                    r = json.load(f)
            else:
                tail = ""
                try:
                    with open(out + ".log") as f:
                        tail = f.read()[-1500:]
                except OSError:
                    pass
                r = {"verdict": "inconclusive" if rc == -9 else "harness_error",
                     "message": "worker exit %s (no result) %s" % (rc, tail), "paths": 0, "nontrivial": [],
                     "failures": [], "samples": [], "counters": {}, "wall_s": round(time.time() - t0, 2)}
            r["job"] = j
            results.append(r)
        running = still
    return results


def main():
    argv = sys.argv[1:]
    if argv and argv[0] == "--replay":
        sys.exit(do_replay(argv[1]))
    pid = argv[0].upper()
    tier = argv[1] if len(argv) > 1 else os.environ.get("VERIF_TIER", "quick")
    only = argv[2] if len(argv) > 2 else None
    seed = int(os.environ.get("VERIF_SEED", "0") or 0)
    t0 = time.time()
    mod = harness_module(pid)
    meta = mod.META
    obligations = mod.plan(tier)
    if only:
        obligations = [o for o in obligations if only in o["name"]]
    jobs = []
    for o in obligations:
        n = o.get("shards", 1)
        for s in range(n):
            jobs.append(dict(name=o["name"], module=mod.__name__, func=o["func"], kind=o.get("kind", "ch"),
                             shard=s, nshards=n, timeout=o.get("timeout", 120), per_path=o.get("per_path", 30),
                             env=o.get("env"), tier=tier))
    workdir = tempfile.mkdtemp(prefix="vt_%s_" % pid, dir=os.environ.get("VT_WORK", "/var/tmp"))
    results = run_jobs(jobs, workdir)

    findings = load_findings()
    known = {f["fingerprint"]: f for f in findings if f.get("property") == pid and f.get("status") == "known"}
    per_ob = {}
    for r in results:
        per_ob.setdefault(r["job"]["name"], []).append(r)

    exit_code = 0
    violations = 0
    ob_report = []
    tot_paths = 0
    nontrivial = set()
    samples = []
    counters = {}
    harness_errors = []
    known_printed = set()
    viol_printed = set()
    queries = 0
    solver_s = 0.0
    for o in obligations:
        rs = per_ob.get(o["name"], [])
        verdicts = [r["verdict"] for r in rs]
        expect = o.get("expect", "confirmed")
        paths = sum(r.get("paths", 0) for r in rs)
        nt = set()
        for r in rs:
            nt.update(r.get("nontrivial", []))
            for k, v in r.get("counters", {}).items():
                if isinstance(v, (int, float)):
                    counters[k] = counters.get(k, 0) + v
            queries += r.get("queries", 0)
            solver_s += r.get("solver_s", 0.0)
        if "harness_error" in verdicts:
            v = "harness_error"
        elif "refuted" in verdicts:
            v = "refuted"
        elif all(x == "confirmed" for x in verdicts) and verdicts:
            v = "confirmed"
        elif "pre_unsat" in verdicts and all(x in ("confirmed", "pre_unsat") for x in verdicts):
            v = "confirmed" if any(x == "confirmed" for x in verdicts) else "pre_unsat"
        else:
            v = "inconclusive"
        rep = {"name": o["name"], "kind": o.get("kind", "ch"), "verdict": v, "expect": expect, "shards": len(rs),
               "paths": paths, "distinct_nontrivial": len(nt),
               "wall_s": round(max([r.get("wall_s", 0) for r in rs] or [0]), 2),
               "cpu_s": round(sum(r.get("wall_s", 0) for r in rs), 2),
               "bound": o.get("bound")}
        if expect == "refuted":
            # reachability twin: must come back refuted, otherwise the harness is vacuous
            rep["role"] = "reachability twin"
            if v != "refuted":
                harness_errors.append("twin %s not refuted (%s)" % (o["name"], v))
        else:
            tot_paths += paths
            nontrivial.update(nt)
            for r in rs:
                for s in r.get("samples", []):
                    if len(samples) < 6:
                        samples.append({"obligation": o["name"], "case": s})
            if v == "harness_error":
                msgs = [(r.get("message") or "") + "\n" + (r.get("traceback") or "") for r in rs if r["verdict"] == "harness_error"]
                harness_errors.append("%s: %s" % (o["name"], msgs[0][:1500] if msgs else ""))
            elif v == "pre_unsat":
                harness_errors.append("%s: precondition unsatisfiable (vacuous)" % o["name"])
            fails = [f for r in rs for f in r.get("failures", [])]
            if v == "refuted" or (fails and v != "harness_error"):
                if not fails:
                    msgs = [(r.get("message") or "") + "\n" + (r.get("traceback") or "") for r in rs if r["verdict"] == "refuted"]
                    harness_errors.append("%s: refuted without recorded counterexample: %s" % (o["name"], msgs[0][:1500] if msgs else ""))
                reproduced = 0
                per_fp = {}
                todo = []
                for f in fails:
                    per_fp[f.get("fingerprint")] = per_fp.get(f.get("fingerprint"), 0) + 1
                    if per_fp[f.get("fingerprint")] > 3:
                        continue
                    rp = {"property": pid, "obligation": o["name"], "case": f["case"], "detail": f.get("detail"),
                          "fingerprint": f.get("fingerprint"), "history": f.get("history") or [],
                          "hashseed": str(f.get("hashseed") or "0")}
                    h = hashlib.sha1(json.dumps(rp, sort_keys=True, default=str).encode()).hexdigest()[:12]
                    d = os.path.join(ROOT, "replays", pid)
                    os.makedirs(d, exist_ok=True)
                    path = os.path.join(d, "%s.json" % h)
                    with open(path, "w") as fh:
                        json.dump(rp, fh, indent=1, default=str)
                    todo.append((f, path))

                def _replay(item):
                    # replayed under the string hash seed of the worker that found it
                    return subprocess.run([sys.executable, "-m", "vt.run", "--replay", item[1]], cwd=ROOT,
                                          capture_output=True, text=True,
                                          env=dict(os.environ, PYTHONPATH=PYPATH, PYTHONDONTWRITEBYTECODE="1",
                                                   PYTHONHASHSEED=str(item[0].get("hashseed") or "0")))
                # every recorded counterexample is replayed in its own fresh interpreter (several at a time)
                with concurrent.futures.ThreadPoolExecutor(max_workers=max(1, min(8, len(todo)))) as ex:
                    done = list(ex.map(_replay, todo))
                for (f, path), pr in zip(todo, done):
                    if pr.returncode == 1:
                        reproduced += 1
                        fp = f.get("fingerprint")
                        for line in pr.stdout.splitlines():
                            if line.startswith("FINGERPRINT="):
                                fp = line[len("FINGERPRINT="):]
                        if fp in known:
                            if fp not in known_printed:
                                known_printed.add(fp)
                                print("KNOWN-FINDING: property=%s %s" % (pid, known[fp]["what"]))
                            os.unlink(path)
                        else:
                            violations += 1
                            if fp not in viol_printed:
                                viol_printed.add(fp)
                                print("VIOLATION property=%s replay=%s" % (pid, path))
                                print("  obligation=%s fingerprint=%s" % (o["name"], fp))
                                print("  detail=%s" % json.dumps(f.get("detail"), default=str)[:1500])
                                for line in pr.stdout.splitlines():
                                    if line.startswith("HISTORY-DEPENDENT"):
                                        print("  note=%s" % line)
                    elif pr.returncode == 0:
                        harness_errors.append("%s: counterexample does not reproduce on replay: %s" % (o["name"], path))
                    else:
                        harness_errors.append("%s: replay crashed: %s" % (o["name"], (pr.stdout + pr.stderr)[-800:]))
                rep["counterexamples"] = len(fails)
                rep["reproduced"] = reproduced
                if v != "refuted":
                    rep["note"] = "exploration continued past known findings"
                # a refuted obligation whose counterexamples are all known findings stays "refuted(known)"
        ob_report.append(rep)

    real_obs = [r for r in ob_report if r["expect"] != "refuted"]
    discharged = sum(1 for r in real_obs if r["verdict"] == "confirmed")
    if real_obs and not nontrivial and not harness_errors:
        harness_errors.append("vacuous: no non-trivial case explored")
    if violations:
        exit_code = 1
    elif harness_errors:
        exit_code = 2
    wall = round(time.time() - t0, 2)
    level = meta.get("level", "exploration")
    cov = {
        "evaluations": tot_paths + queries,
        "distinct_nontrivial": len(nontrivial),
        "rule": meta.get("rule", ""),
        "samples": samples or [{"note": "no sample recorded"}],
        "obligations": len(real_obs),
        "discharged": discharged,
        "inconclusive": [r["name"] for r in real_obs if r["verdict"] == "inconclusive"],
        "explanation": meta.get("explanation", ""),
        "exhaustive": bool(real_obs) and discharged == len(real_obs),
        "engine": meta.get("engine", "CrossHair 0.0.110 (z3) symbolic execution of the real annet functions"),
        "functions_encoded": meta.get("functions", []),
        "bounds": meta.get("bounds", {}).get(tier, meta.get("bounds", {})),
        "outside_claim": meta.get("outside", []),
        "paths_explored": tot_paths,
        "smt_queries": queries,
        "solver_s": round(solver_s, 3),
        "per_obligation": ob_report,
        "counters": counters,
        "known_findings_hit": sorted(known_printed),
        "harness_errors": harness_errors,
        "jobs": NCPU,
    }
    ev = {
        "property_id": pid, "tier": tier, "seed": seed, "level": level, "coverage": cov,
        "assumptions": meta.get("assumptions", []), "wall_s": wall, "violations": violations,
    }
    if not only and not os.environ.get("VT_NO_EVIDENCE"):
        os.makedirs(os.path.join(ROOT, "evidence"), exist_ok=True)
        with open(os.path.join(ROOT, "evidence", "%s.json" % pid), "w") as f:
            json.dump(ev, f, indent=1, default=str)
    for r in ob_report:
        print("  [%s] %-38s %-12s paths=%-7d nontrivial=%-6d wall=%ss" % (
            pid, r["name"], r["verdict"] + ("(twin)" if r["expect"] == "refuted" else ""), r["paths"],
            r["distinct_nontrivial"], r["wall_s"]))
    for e in harness_errors:
        print("HARNESS-ERROR %s" % e)
    print("%s %s: obligations=%d discharged=%d paths=%d queries=%d nontrivial=%d violations=%d wall=%ss exit=%d" % (
        pid, tier, len(real_obs), discharged, tot_paths, queries, len(nontrivial), violations, wall, exit_code))
    try:
        import shutil
        if not os.environ.get("VT_KEEP"):
            shutil.rmtree(workdir, ignore_errors=True)
        else:
            print("workdir kept: %s" % workdir)
    except Exception:
        pass
    sys.exit(exit_code)


if __name__ == "__main__":
    main()
