"""Regenerates /verif/MANIFEST.json from the harness modules' META (python -m vt.mkmanifest)."""
import importlib
import json
import os

ALL = ["C%02d" % i for i in range(1, 21)]
TITLES = {}
NA_REASONS = {}


def level_text(m):
    if m.get("level_text"):
        return m["level_text"]
    if m.get("explanation"):
        return m["explanation"]
    return ("Bounded exhaustive verification driven through the solver: the index of the case (" + m.get("rule", "") + ") is the "
            "symbolic input of a CrossHair harness that runs the real annet functions listed in the evidence; z3 decides every "
            "branch of the index decoding and CONFIRMED certifies that no case inside the stated finite space was left out; "
            "a counterexample is a concrete case that is replayed against /repo without CrossHair before it is reported. "
            "Nothing is claimed outside the bounds printed in the evidence file (small-scope hypothesis), which is the right "
            "level here because the configuration trees are hash-keyed containers that no packaged engine keeps symbolic.")


def main():
    from vt import common
    common.setup_annet()
    checks = []
    na = []
    for pid in ALL:
        path = os.path.join("/verif/vt/harness", pid.lower() + ".py")
        if not os.path.exists(path):
            na.append({"property_id": pid, "reason": NA_REASONS.get(pid, "check not built yet (work in progress); see DESIGN.md")})
            continue
        mod = importlib.import_module("vt.harness." + pid.lower())
        m = mod.META
        if m.get("not_applicable"):
            na.append({"property_id": pid, "reason": m["not_applicable"]})
            continue
        checks.append({
            "property_id": pid,
            "quick_cmd": "bin/check %s quick" % pid,
            "thorough_cmd": "bin/check %s thorough" % pid,
            "evidence_file": "/verif/evidence/%s.json" % pid,
            "replay_cmd_template": "bin/check --replay {path}",
            "engine": m.get("engine_name", "E-CH"),
            "level_claimed": {
                "category": m.get("level", "exploration"),
                "text": level_text(m),
                "design_ref": "DESIGN.md section 4 / %s" % pid,
            },
            "level_note": "; ".join(m.get("assumptions", [])) or "see DESIGN.md",
            "technique": m.get("technique", "bounded symbolic execution of the real code (CrossHair/z3)"),
        })
    man = {
        "version": 1,
        "setup_cmd": "bin/setup",
        "hooks": {
            "guard": "ANNET_VERIF",
            "enable": "no source hooks are needed: harnesses import annet from /repo's working tree and install stubs by attribute assignment at run time",
            "baseline_off_cmd": "cd /repo && /venv/bin/python -m pytest -ra -q -p no:cacheprovider --timeout=900 --continue-on-collection-errors",
            "source_commits": [],
            "add_only": True,
        },
        "engines": [
            {"name": "E-CH", "path": "/verif/vt/worker.py", "serves_properties": [c["property_id"] for c in checks],
             "kind_free_text": "CrossHair 0.0.110 symbolic execution (z3) of harness functions that call the real annet code; per-path verdicts, CONFIRMED = all paths within the bound exhausted"},
            {"name": "E-Z3", "path": "/verif/vt/rx2z3.py", "serves_properties": [c["property_id"] for c in checks if "E-Z3" in c["engine"]],
             "kind_free_text": "direct z3 string/regex/LIA queries over re.Pattern objects produced by annet's real compilers at run time"},
        ],
        "checks": checks,
        "not_applicable": na,
        "notes": "Technique family: solver-based checking of the real code. Exit 0 = nothing explored violated; 1 = VIOLATION replayed on the real code; 2 = harness error. Known findings: /verif/known_findings.json.",
    }
    with open("/verif/MANIFEST.json", "w") as f:
        json.dump(man, f, indent=1)
    import jsonschema
    jsonschema.validate(man, json.load(open("/root/.vp/MANIFEST.schema.json")))
    print("MANIFEST ok: %d checks, %d not_applicable" % (len(checks), len(na)))


if __name__ == "__main__":
    main()
