"""E-Z3: translate Python `re` patterns (as produced by annet's real compilers at run time) into z3 regular
expressions, with a continuation-passing treatment of `$` so that `.match()` prefix semantics is exact.

T(nodes, K) = language of strings  u.v  with u matched by `nodes` and v in K  (K = "what may follow").
match(p, s) is not None   <=>   s in T(parse(p), Sigma*)        (rows contain no newline)
"""
import re
import re._parser as sre_parse
import re._constants as C
import time

import z3

SS = z3.StringSort()
RS = z3.ReSort(SS)

ALLCHAR = z3.AllChar(RS)
SIGMA_STAR = z3.Full(RS)
EPS = z3.Re("")
EMPTY = z3.Empty(RS)


class Unsupported(Exception):
    pass


def _chr_re(c):
    return z3.Re(chr(c))


def _union(xs):
    xs = list(xs)
    if not xs:
        return EMPTY
    if len(xs) == 1:
        return xs[0]
    return z3.Union(*xs)


def _concat(a, b):
    if b is EPS:
        return a
    if a is EPS:
        return b
    return z3.Concat(a, b)


_WS = [9, 10, 11, 12, 13, 32, 28, 29, 30, 31]
_CATS = {
    C.CATEGORY_SPACE: lambda: _union(_chr_re(c) for c in _WS),
    C.CATEGORY_DIGIT: lambda: z3.Range("0", "9"),
    C.CATEGORY_WORD: lambda: _union([z3.Range("a", "z"), z3.Range("A", "Z"), z3.Range("0", "9"), z3.Re("_")]),
}
_NEG = {C.CATEGORY_NOT_SPACE: C.CATEGORY_SPACE, C.CATEGORY_NOT_DIGIT: C.CATEGORY_DIGIT,
        C.CATEGORY_NOT_WORD: C.CATEGORY_WORD}


def _not_class(r):
    return z3.Intersect(ALLCHAR, z3.Complement(r))


def _lit(c, ic):
    ch = chr(c)
    if ic and ch.lower() != ch.upper() and c < 128:
        return z3.Union(z3.Re(ch.lower()), z3.Re(ch.upper()))
    return z3.Re(ch)


def _class(items, ic):
    neg = False
    parts = []
    for (op, av) in items:
        if op is C.NEGATE:
            neg = True
        elif op is C.LITERAL:
            parts.append(_lit(av, ic))
        elif op is C.RANGE:
            lo, hi = av
            parts.append(z3.Range(chr(lo), chr(hi)))
            if ic:
                for (a, b, d) in ((97, 122, -32), (65, 90, 32)):
                    l2, h2 = max(lo, a), min(hi, b)
                    if l2 <= h2:
                        parts.append(z3.Range(chr(l2 + d), chr(h2 + d)))
        elif op is C.CATEGORY:
            if av in _CATS:
                parts.append(_CATS[av]())
            elif av in _NEG:
                parts.append(_not_class(_CATS[_NEG[av]]()))
            else:
                raise Unsupported("category %s" % av)
        else:
            raise Unsupported("class item %s" % op)
    r = _union(parts)
    return _not_class(r) if neg else r


def _has_end(nodes):
    for (op, av) in nodes:
        if op is C.AT and av in (C.AT_END, C.AT_END_STRING):
            return True
        if op is C.SUBPATTERN and _has_end(av[3]):
            return True
        if op is C.BRANCH and any(_has_end(a) for a in av[1]):
            return True
        if op in (C.MAX_REPEAT, C.MIN_REPEAT) and _has_end(av[2]):
            return True
    return False


def T(nodes, K, ic=False, first=True):
    nodes = list(nodes)
    if not nodes:
        return K
    (op, av) = nodes[0]
    rest = nodes[1:]
    if op is C.AT:
        if av in (C.AT_BEGINNING, C.AT_BEGINNING_STRING):
            if not first:
                raise Unsupported("^ not at start")
            return T(rest, K, ic, True)
        if av in (C.AT_END, C.AT_END_STRING):
            return z3.Intersect(T(rest, K, ic, False), EPS)
        raise Unsupported("AT %s" % av)
    if op is C.SUBPATTERN:
        group, add_flags, del_flags, p = av
        ic2 = (ic or bool(add_flags & re.IGNORECASE)) and not (del_flags & re.IGNORECASE)
        if _has_end(p):
            if ic2 != ic:
                raise Unsupported("scoped flags around $")
            return T(list(p) + rest, K, ic, first)
        return _concat(T(p, EPS, ic2, first), T(rest, K, ic, False))
    if op is C.BRANCH:
        alts = av[1]
        if any(_has_end(a) for a in alts):
            return _union(T(list(a) + rest, K, ic, first) for a in alts)
        return _concat_k(_union(T(a, EPS, ic, first) for a in alts), rest, K, ic)
    if op in (C.MAX_REPEAT, C.MIN_REPEAT, getattr(C, "POSSESSIVE_REPEAT", None)):
        lo, hi, p = av
        if op is getattr(C, "POSSESSIVE_REPEAT", None):
            raise Unsupported("possessive repeat")
        if _has_end(p):
            raise Unsupported("$ inside repeat")
        body = T(p, EPS, ic, False)
        if hi is C.MAXREPEAT:
            if lo == 0:
                r = z3.Star(body)
            elif lo == 1:
                r = z3.Plus(body)
            else:
                r = z3.Concat(z3.Loop(body, lo, lo), z3.Star(body))
        elif lo == 0 and hi == 1:
            r = z3.Option(body)
        else:
            r = z3.Loop(body, lo, hi)
        return _concat_k(r, rest, K, ic)
    if op is C.ASSERT_NOT:
        # special case   (?:(?!X).)*   is handled in _repeat_lookahead(); a bare lookahead is unsupported
        raise Unsupported("lookahead")
    if op is C.LITERAL:
        r = _lit(av, ic)
    elif op is C.NOT_LITERAL:
        r = _not_class(_lit(av, ic))
    elif op is C.ANY:
        r = _not_class(z3.Re("\n"))
    elif op is C.IN:
        r = _class(av, ic)
    else:
        raise Unsupported(str(op))
    return _concat_k(r, rest, K, ic)


def _unsup(msg):
    raise Unsupported(msg)


def _concat_k(r, rest, K, ic):
    return _concat(r, T(rest, K, ic, False))


def parse(pattern, flags=0):
    return sre_parse.parse(pattern, flags)


def match_lang(pat):
    """z3 regex for { s | pat.match(s) is not None }   (pat: compiled re.Pattern or (str, flags))"""
    if isinstance(pat, tuple):
        src, flags = pat
    else:
        src, flags = pat.pattern, pat.flags
    tree = parse(src, flags)
    ic = bool(tree.state.flags & re.IGNORECASE)
    return T(list(tree), SIGMA_STAR, ic, True)


def fullmatch_lang(pat):
    if isinstance(pat, tuple):
        src, flags = pat
    else:
        src, flags = pat.pattern, pat.flags
    tree = parse(src, flags)
    ic = bool(tree.state.flags & re.IGNORECASE)
    return T(list(tree), EPS, ic, True)


# ------------------------------------------------------------------ domains
def row_domain():
    """rows as parse_to_tree produces them: non-empty, printable ASCII + TAB, no leading/trailing blank"""
    nonsp = z3.Range("!", "~")
    anyc = z3.Union(z3.Range(" ", "~"), z3.Re("\t"))
    return z3.Union(nonsp, z3.Concat(nonsp, z3.Star(anyc), nonsp))


class Solver:
    """one z3 solver kept alive; push/pop per query; per-query timeout; counts queries and solver time"""

    def __init__(self, timeout_ms=20000):
        self.s = z3.Solver()
        self.s.set("timeout", timeout_ms)
        self.queries = 0
        self.solver_s = 0.0
        self.x = z3.String("row")

    def check(self, *constraints):
        """returns ('sat', model_string) | ('unsat', None) | ('unknown', reason)"""
        self.s.push()
        try:
            for c in constraints:
                self.s.add(c)
            t0 = time.time()
            r = self.s.check()
            self.solver_s += time.time() - t0
            self.queries += 1
            sr = str(r)
            if sr == "sat":
                m = self.s.model()
                v = m.eval(self.x, model_completion=True)
                return "sat", v.as_string() if hasattr(v, "as_string") else str(v)
            if sr == "unsat":
                return "unsat", None
            return "unknown", self.s.reason_unknown()
        except z3.Z3Exception as e:
            return "unknown", "z3 error: %s" % e
        finally:
            self.s.pop()


def z3_unescape(s):
    """z3 model strings escape non-printables as \\u{..}"""
    return re.sub(r"\\u\{([0-9a-fA-F]+)\}", lambda m: chr(int(m.group(1), 16)), s)


def concrete_in(lang, s):
    """decide a concrete membership with z3's simplifier (translator validation)"""
    r = z3.simplify(z3.InRe(z3.StringVal(s), lang))
    if z3.is_true(r):
        return True
    if z3.is_false(r):
        return False
    sol = z3.Solver()
    sol.set("timeout", 5000)
    sol.add(r)
    return str(sol.check()) == "sat"
