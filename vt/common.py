"""Helpers shared by harnesses: annet bootstrap, hardware stubs, synthetic rulebooks, tree utils."""
import os
from collections import OrderedDict as odict

_setup_done = False

HW_MODELS = {
    "cisco": "Cisco Catalyst",
    "nexus": "Cisco Nexus",
    "iosxr": "Cisco XR",
    "huawei": "Huawei",
    "huawei ce": "Huawei CE0000",
    "juniper": "Juniper",
    "routeros": "RouterOS",
    "aruba": "Aruba",
    "arista": "Arista",
    "nokia": "Nokia",
    "pc": "PC",
    "ribbon": "Ribbon",
    "optixtrans": "Huawei DC",
    "b4com": "B4com",
    "h3c": "H3C",
}


def setup_annet():
    global _setup_done
    if _setup_done:
        return
    os.environ.setdefault("ANN_VERIF", "0")
    from annet.hardware import hardware_connector, AnnetHardwareProvider
    from annet.rulebook import rulebook_provider_connector, DefaultRulebookProvider
    hardware_connector.set(AnnetHardwareProvider)
    rulebook_provider_connector.set(DefaultRulebookProvider)
    import annet.api  # noqa  (completes the import graph the way the CLI does)
    from annet.diff import file_differ_connector, UnifiedFileDiffer
    file_differ_connector.set(UnifiedFileDiffer)
    _setup_done = True


def make_hw(vendor, soft=None):
    from annet.annlib.netdev.views.hardware import HardwareView
    return HardwareView(HW_MODELS[vendor], soft)


def make_rb(patching_text, vendor, ordering_text="", deploying_text=""):
    """A rulebook compiled by annet's real compilers from synthetic texts."""
    from annet.rulebook.patching import compile_patching_text
    from annet.annlib.rbparser.ordering import compile_ordering_text
    from annet.rulebook.deploying import compile_deploying_text
    return {
        "patching": compile_patching_text(patching_text, vendor),
        "ordering": compile_ordering_text(ordering_text, vendor),
        "deploying": compile_deploying_text(deploying_text, vendor),
    }


class StubDevice:
    def __init__(self, hw, hostname="verif-dev", breed="vrp85"):
        self.hw = hw
        self.hostname = hostname
        self.fqdn = hostname
        self.breed = breed
        self.id = 1


def tree(obj):
    """nested lists/dicts -> odict tree.  obj: dict row->subtree | list of rows | list of (row, subtree)"""
    t = odict()
    if obj is None:
        return t
    if isinstance(obj, dict):
        for k, v in obj.items():
            t[k] = tree(v)
        return t
    for it in obj:
        if isinstance(it, (tuple, list)):
            t[it[0]] = tree(it[1])
        else:
            t[it] = odict()
    return t


def tree_to_json(t):
    return [[k, tree_to_json(v)] for k, v in (t or {}).items()]


def tree_paths(t, prefix=()):
    out = []
    for k, v in (t or {}).items():
        out.append(prefix + (k,))
        out.extend(tree_paths(v, prefix + (k,)))
    return out


def plain(t):
    """odict tree -> plain nested dict (unordered comparison)"""
    return {k: plain(v) for k, v in (t or {}).items()}


def pick(s, n, lo=0):
    """Decode a (possibly symbolic) selector lo <= s < n into a concrete int by bisection
    (each comparison is a solver-decided branch; the returned int is concrete on the path)."""
    hi = n - 1
    while lo < hi:
        mid = (lo + hi) // 2
        if s <= mid:
            hi = mid
        else:
            lo = mid + 1
    return lo


def digits(c, radices):
    """mixed-radix decomposition of a concrete int (little endian)"""
    out = []
    for r in radices:
        out.append(c % r)
        c //= r
    return out


def space(radices):
    n = 1
    for r in radices:
        n *= r
    return n
