"""Finite configuration spaces described by slot schemas, with count/unrank (mixed radix over a tree)."""
import itertools
from collections import OrderedDict as odict


class S:
    """one (rule,key) slot: absent, or one of `rows`; when present, `children` slots apply below it"""

    def __init__(self, rows, children=()):
        self.rows = list(rows)
        self.children = list(children)

    def count(self):
        return 1 + len(self.rows) * count(self.children)

    def unrank(self, i, out):
        if i == 0:
            return
        i -= 1
        c = count(self.children)
        row = self.rows[i // c]
        out[row] = unrank(self.children, i % c)


class P:
    """ordered group: every arrangement of every subset (size <= maxlen) of `rows`, each row a leaf"""

    def __init__(self, rows, maxlen=None, children=()):
        self.rows = list(rows)
        self.children = list(children)
        self.arr = []
        for k in range(0, (maxlen if maxlen is not None else len(self.rows)) + 1):
            self.arr.extend(itertools.permutations(self.rows, k))

    def count(self):
        return len(self.arr)

    def unrank(self, i, out):
        for row in self.arr[i]:
            out[row] = odict()


class PB:
    """ordered group of BLOCK rows: every arrangement of every subset (size <= maxlen) of `rows`; each present row carries
    its own choice from the `children` slots"""

    def __init__(self, rows, children, maxlen=None):
        self.rows = list(rows)
        self.children = list(children)
        self.cc = count(self.children)
        self.arr = []
        self.cum = [0]
        for k in range(0, (maxlen if maxlen is not None else len(self.rows)) + 1):
            for a in itertools.permutations(self.rows, k):
                self.arr.append(a)
                self.cum.append(self.cum[-1] + self.cc ** k)

    def count(self):
        return self.cum[-1]

    def unrank(self, i, out):
        import bisect
        k = bisect.bisect_right(self.cum, i) - 1
        i -= self.cum[k]
        for row in self.arr[k]:
            out[row] = unrank(self.children, i % self.cc)
            i //= self.cc


def count(slots):
    n = 1
    for s in slots:
        n *= s.count()
    return n


def unrank(slots, i):
    out = odict()
    for s in slots:
        c = s.count()
        s.unrank(i % c, out)
        i //= c
    return out
