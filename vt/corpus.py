"""The repo's own (before, after) sample corpus, used as INPUTS only (never the expected patch texts)."""
import json
import os
from collections import OrderedDict as odict

from vt.common import make_hw, tree_to_json

_cache = {}


def _expand_diff(tree):
    def proc(node, sign=0):
        r1, r2 = odict(), odict()
        for line, children in node.items():
            line = line.strip()
            ls = 0
            if line.startswith("-") or line.startswith("+"):
                ls = 1 if line[0] == "+" else -1
                line = line[1:].strip()
            s1, s2 = proc(children, ls)
            if ls != 1:
                r1[line] = s1
            if ls != -1:
                r2[line] = s2
        return r1, r2
    return proc(tree)


def load(base=None):
    base = base or os.path.join(os.environ.get("VT_REPO", "/repo"), "tests/annet/test_patch")
    """-> {vendor: {"hw": hw, "trees": [odict...], "pairs": [(i_before, i_after)]}}"""
    if base in _cache:
        return _cache[base]
    import yaml
    from annet import tabparser
    from annet.vendors import registry_connector
    out = {}
    for fn in sorted(os.listdir(base)):
        if not fn.endswith(".yaml"):
            continue
        with open(os.path.join(base, fn)) as f:
            data = yaml.load(f, Loader=yaml.BaseLoader)
        samples = data if isinstance(data, list) else [data]
        for smp in samples:
            vendor = smp.get("vendor", "huawei").lower()
            try:
                hw = make_hw(vendor if vendor != "asr" else "iosxr")
                if vendor == "asr":
                    from annet.annlib.netdev.views.hardware import HardwareView
                    hw = HardwareView("Cisco ASR", None)
            except KeyError:
                continue
            splitter = registry_connector.get().match(hw).make_formatter().split
            try:
                if "diff" in smp:
                    before, after = _expand_diff(tabparser.parse_to_tree(text=smp["diff"], splitter=splitter))
                else:
                    before = tabparser.parse_to_tree(text=smp["before"], splitter=splitter)
                    after = tabparser.parse_to_tree(text=smp["after"], splitter=splitter)
            except Exception:
                continue
            v = out.setdefault(vendor, {"hw": hw, "trees": [], "keys": {}, "pairs": []})
            idx = []
            for t in (before, after):
                k = json.dumps(tree_to_json(t))
                if k not in v["keys"]:
                    v["keys"][k] = len(v["trees"])
                    v["trees"].append(t)
                idx.append(v["keys"][k])
            v["pairs"].append(tuple(idx))
    _cache[base] = out
    return out
