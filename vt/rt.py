"""Run-time side channel shared by harness functions and the worker that drives CrossHair.

Everything recorded here is *measured* on the run: one `record()` per explored path.
Harness code calls these helpers under `NoTracing()` (arguments are concrete by then).
"""
import hashlib
import json
import os

SHARD = int(os.environ.get("VT_SHARD", "0"))
NSHARDS = int(os.environ.get("VT_NSHARDS", "1"))
TIER = os.environ.get("VT_TIER", "quick")
SEED = int(os.environ.get("VERIF_SEED", "0") or 0)

paths = 0
nontrivial = set()
failures = []
samples = []
counters = {}
MAX_SAMPLES = 3
MAX_FAILURES = 5
# the cases explored just before a failing one in the same worker process: a failure that needs them to reproduce depends on
# process history (caches, shared objects) and is replayed with them
HISTORY = 12
_recent = []


def reset():
    global paths
    paths = 0
    nontrivial.clear()
    failures.clear()
    samples.clear()
    counters.clear()


def _h(obj):
    return hashlib.sha1(json.dumps(obj, sort_keys=True, default=str).encode()).hexdigest()[:16]


def count(name, n=1):
    counters[name] = counters.get(name, 0) + n


def record(case, ok, nontrivial_key=None, detail=None, fingerprint=None):
    """One explored path. `case` is the decoded concrete input (JSON-serialisable).
    nontrivial_key: None if the path was trivial by the harness's rule, else any JSON value
    identifying the distinct non-trivial case."""
    global paths
    paths += 1
    if nontrivial_key is not None:
        nontrivial.add(_h(nontrivial_key))
        if len(samples) < MAX_SAMPLES:
            samples.append(case)
    if not ok:
        n_fp = sum(1 for f in failures if f["fingerprint"] == fingerprint)
        if (len(failures) < MAX_FAILURES and n_fp < 2) or (n_fp == 0 and len(failures) < 4 * MAX_FAILURES):
            failures.append({"case": case, "detail": detail, "fingerprint": fingerprint, "history": list(_recent),
                             "hashseed": os.environ.get("PYTHONHASHSEED", "0")})
    _recent.append(case)
    if len(_recent) > HISTORY:
        del _recent[0]


_known = None


def is_known(fingerprint):
    """fingerprint listed as status 'known' in /verif/known_findings.json (read-only): harnesses keep exploring past it"""
    global _known
    if _known is None:
        try:
            with open(os.path.join(os.path.dirname(os.path.dirname(os.path.abspath(__file__))), "known_findings.json")) as f:
                _known = set(x["fingerprint"] for x in json.load(f).get("findings", []) if x.get("status") == "known")
        except OSError:
            _known = set()
    return fingerprint in _known


def in_shard(x):
    """Shard predicate usable inside PEP316 preconditions: x is a (possibly symbolic) small int."""
    return x % NSHARDS == SHARD


def shard_range(n):
    """[lo, hi) slice of range(n) owned by this shard"""
    lo = (n * SHARD) // NSHARDS
    hi = (n * (SHARD + 1)) // NSHARDS
    return lo, hi


def dump():
    return {
        "paths": paths,
        "nontrivial": sorted(nontrivial),
        "failures": list(failures),
        "samples": list(samples),
        "counters": dict(counters),
    }
