"""C16 — file mode and device mode compute the same diff and the same patch.  See DESIGN.md §C16."""
import copy
import os
import tempfile

from crosshair.tracers import NoTracing

from vt import rt, corpus
from vt.common import pick, StubDevice, tree_to_json
from vt.space import S, count, unrank

META = {
    "property_id": "C16",
    "level": "exploration",
    "technique": "CrossHair/z3-certified exhaustion of (vendor, old, new) index spaces; differential check of the two real front ends",
    "functions": [
        "annet/api/__init__.py:_read_old_new_diff_patch", "annet/api/__init__.py:_diff_and_patch",
        "annet/api/__init__.py:file_patch_worker", "annet/api/__init__.py:file_diff_worker",
        "annet/api/__init__.py:_read_old_new_hw", "annet/api/__init__.py:_read_device_config",
        "annet/api/__init__.py:patch_from_pre", "annet/annlib/patching.py:make_diff", "annet/annlib/patching.py:make_pre",
        "annet/annlib/patching.py:strip_unchanged", "annet/annlib/patching.py:make_patch",
        "annet/rulebook/huawei/misc.py:prefix_list", "annet/rulebook/huawei/vlandb.py:*", "annet/rulebook/*: every shipped %logic reached by the corpus",
    ],
    "rule": "one path per (vendor, i_old, i_new) over the cross product of that vendor's corpus trees (every before/after of "
            "tests/annet/test_patch/*.yaml, used as inputs only) and over synthetic trees built from shipped rule words whose "
            "logic reads the UNCHANGED bucket; non-trivial = device-mode patch has >=1 command; distinct by (vendor, i, j)",
    "explanation": "",
    "assumptions": ["no ACL, implicit defaults off (as the property states)", "hardware stubs as in the repo's tests for the corpus; concrete models Huawei CE6870 / S5700-28C-EI / NE40E for the model-specific synthetic families"],
    "outside": ["configs outside the corpus/synthetic spaces", "directory (PC) mode of the file workers"],
    "bounds": {"quick": "corpus cross products for all vendors (about 18k pairs) + 6 synthetic families (3 on concrete hardware models)",
               "thorough": "same + file workers on temp files for every shipped pair"},
}

SYN = {
    "huawei-prefix": ("huawei", [
        S(["ip ip-prefix PL index 5 permit 10.0.0.0 8", "ip ip-prefix PL index 5 deny 10.0.0.0 8"]),
        S(["ip ip-prefix PL index 10 permit 10.1.0.0 16", "ip ip-prefix PL index 10 permit 10.1.0.0 16 greater-equal 24 less-equal 24"]),
        S(["ip ip-prefix PL index 15 permit 10.2.0.0 16"]),
        S(["ip ip-prefix PM index 5 permit 10.3.0.0 16"]),
        S(["ip ipv6-prefix P6 index 5 permit 2001:DB8:: 32"]),
    ]),
    "huawei-vlan": ("huawei", [
        S(["interface GE1/0/1"], [
            S(["port trunk allow-pass vlan 2 to 3", "port trunk allow-pass vlan 2"]),
            S(["port trunk allow-pass vlan 6 to 7", "port trunk allow-pass vlan 6"]),
        ]),
        S(["vlan batch 2 to 3", "vlan batch 2"]),
        S(["vlan batch 6 to 7"]),
    ]),
    "cisco-vlan": ("cisco", [
        S(["interface GigabitEthernet1/0/1"], [
            S(["switchport trunk allowed vlan 2,3", "switchport trunk allowed vlan 2,6", "switchport trunk allowed vlan 2-3,6-7"]),
            S(["description x", "description y"]),
        ]),
        S(["vlan 2"], [S(["name two", "name deux"])]),
        S(["vlan 3"]),
    ]),
    # concrete hardware models whose rulebook text has model-specific sections (%if hw.Huawei.CE / NE / Quidway ...): both
    # front ends must use the rulebook of THAT model
    "huawei-ce": ("model:Huawei CE6870", [
        S(["interface 10GE1/0/1"], [
            S(["trust 8021p", "trust dscp"]),
            S(["stp edged-port enable", "stp edged-port disable"]),
            S(["description a", "description b"]),
        ]),
        S(["sysname a", "sysname b"]),
    ]),
    "huawei-quidway": ("model:Huawei S5700-28C-EI", [
        S(["interface GigabitEthernet0/0/1"], [
            S(["trust 8021p", "trust dscp"]),
            S(["mac-address trap notification learn", "mac-address trap notification all"]),
            S(["description a", "description b"]),
        ]),
        S(["sysname a", "sysname b"]),
    ]),
    "huawei-ne": ("model:Huawei NE40E", [
        S(["interface GE0/1/0"], [
            S(["trust 8021p", "trust dscp"]),
            S(["description a", "description b"]),
        ]),
        S(["sysname a", "sysname b"]),
    ]),
}


def _hw_of(spec):
    if spec.startswith("model:"):
        from annet.annlib.netdev.views.hardware import HardwareView
        return HardwareView(spec[6:], None)
    from vt.common import make_hw
    return make_hw(spec)

_ctx = {}


def vendor_ctx(hw):
    key = str(hw)
    if key not in _ctx:
        from annet.vendors import registry_connector
        _ctx[key] = (StubDevice(hw), registry_connector.get().match(hw).make_formatter())
    return _ctx[key]


def _diff_plain(d):
    return [(str(op), row, _diff_plain(ch), m.get("raw_rule") if isinstance(m, dict) else None) for (op, row, ch, m) in d]


SHOW_RULES = (False, True)


def check_pair(hw, old, new):
    from annet import api
    from annet.annlib import patching
    from annet.annlib.diff import gen_pre_as_diff
    dev, fmt = vendor_ctx(hw)
    res = {}
    for mode in ("file", "device"):
        try:
            if mode == "file":
                _, d, pre, p = api._read_old_new_diff_patch(copy.deepcopy(old), copy.deepcopy(new), hw, False)
            else:
                d, p = api._diff_and_patch(dev, copy.deepcopy(old), copy.deepcopy(new), None, None, False)
                pre = patching.make_pre(d)
            # what the front end PRINTS as the diff (file-diff prints the returned grouped diff, the device front end groups
            # the returned diff tree), with and without rule headers
            shown = ["".join(gen_pre_as_diff(pre, sr, "  ", True)) for sr in SHOW_RULES]
            res[mode] = ("ok", [list(x) for x in fmt.cmd_paths(p)], _diff_plain(d), shown)
        except Exception as e:  # noqa
            res[mode] = ("exc", type(e).__name__, str(e)[:200])
    f, d = res["file"], res["device"]
    ncmd = len(d[1]) if d[0] == "ok" else 0
    if f[0] != d[0] or (f[0] == "exc" and f[1] != d[1]):
        return False, {"file": f[:2] if f[0] == "ok" else f, "device": d[:2] if d[0] == "ok" else d}, "outcome-differs", ncmd
    if f[0] == "exc":
        return True, None, None, 0
    if f[1] != d[1]:
        onlyf = [x for x in f[1] if x not in d[1]][:4]
        onlyd = [x for x in d[1] if x not in f[1]][:4]
        return False, {"only_file_mode": onlyf, "only_device_mode": onlyd, "file": f[1][:12], "device": d[1][:12]}, \
            "patch-differs" if (onlyf or onlyd) else "patch-order-differs", ncmd
    if f[2] != d[2]:
        return False, {"file_diff": str(f[2])[:600], "device_diff": str(d[2])[:600]}, "diff-differs", ncmd
    if f[3] != d[3]:
        k = 0 if f[3][0] != d[3][0] else 1
        return False, {"file_mode_prints": f[3][k][:800], "device_mode_prints": d[3][k][:800], "show_rules": SHOW_RULES[k]}, "printed-diff-differs", ncmd
    return True, None, None, ncmd


# ---------------------------------------------------------------- corpus cross products
def _index():
    C = corpus.load()
    offs = []
    total = 0
    for v in sorted(C):
        n = len(C[v]["trees"])
        offs.append((v, total, n))
        total += n * n
    return C, offs, total


C, OFFS, NCORP = _index()
LO, HI = rt.shard_range(NCORP)


def _locate(c):
    for (v, off, n) in OFFS:
        if off <= c < off + n * n:
            k = c - off
            return v, k // n, k % n
    raise IndexError(c)


def h_corpus(case: int) -> bool:
    """
    pre: LO <= case < HI
    post: _ == True
    """
    c = pick(case, HI, LO)
    with NoTracing():
        v, i, j = _locate(c)
        hw = C[v]["hw"]
        ok, detail, kind, ncmd = check_pair(hw, C[v]["trees"][i], C[v]["trees"][j])
        rt.record({"vendor": v, "i": i, "j": j}, ok, [v, i, j] if ncmd else None, detail=detail,
                  fingerprint="C16:corpus:%s:%s" % (v, kind))
    return ok


# ---------------------------------------------------------------- synthetic
SYNNAME = os.environ.get("VT_SYN", "huawei-prefix")
SV, SSLOTS = SYN[SYNNAME]
NS = count(SSLOTS)
SLO, SHI = rt.shard_range(NS * NS)


def h_syn(case: int) -> bool:
    """
    pre: SLO <= case < SHI
    post: _ == True
    """
    c = pick(case, SHI, SLO)
    with NoTracing():
        hw = _hw_of(SV)
        i, j = c % NS, c // NS
        ok, detail, kind, ncmd = check_pair(hw, unrank(SSLOTS, i), unrank(SSLOTS, j))
        if detail is not None:
            detail = dict(detail, old=tree_to_json(unrank(SSLOTS, i)), new=tree_to_json(unrank(SSLOTS, j)))
        rt.record({"syn": SYNNAME, "i": i, "j": j}, ok, [SYNNAME, i, j] if ncmd else None, detail=detail,
                  fingerprint="C16:%s:%s" % (SYNNAME, kind))
    return ok


# ---------------------------------------------------------------- file workers on temp files
PAIRS = [(v, i, j) for v in sorted(C) for (i, j) in C[v]["pairs"]]
WLO, WHI = rt.shard_range(len(PAIRS))


_wd = None


def _workdir():
    global _wd
    if _wd is None:
        import atexit
        import shutil
        _wd = tempfile.mkdtemp(prefix="vt_c16_", dir=os.environ.get("VT_WORKDIR") or "/var/tmp")
        atexit.register(shutil.rmtree, _wd, True)
    return _wd


def check_workers(v, i, j):
    from annet import api
    from annet.vendors import registry_connector

    class Args:
        pass
    hw = C[v]["hw"]
    dev, fmt = vendor_ctx(hw)
    old, new = C[v]["trees"][i], C[v]["trees"][j]
    joiner = registry_connector.get().match(hw).make_formatter()
    # the SAME two paths are rewritten for every pair this process compares (a dump directory that is refreshed between
    # runs of a long-lived process): the workers must read what is in the files now
    td = _workdir()
    if True:
        po, pn = os.path.join(td, "old.cfg"), os.path.join(td, "new.cfg")
        with open(po, "w") as f:
            f.write(joiner.join(old))
        with open(pn, "w") as f:
            f.write(joiner.join(new))
        args = Args()
        args.hw = hw
        args.add_comments = False
        args.indent = "  "
        args.show_rules = False
        args.no_color = True
        try:
            out = list(api.file_patch_worker((po, pn), args))
            dout = list(api.file_diff_worker((po, pn), args))
        except Exception as e:  # noqa
            out = [("exc", type(e).__name__, False)]
            dout = []
        from annet import tabparser
        try:
            o2 = tabparser.parse_to_tree(open(po).read(), joiner.split)
            n2 = tabparser.parse_to_tree(open(pn).read(), joiner.split)
            d, p = api._diff_and_patch(dev, o2, n2, None, None, False)
            want = api._format_patch_blocks(p, hw, "  ")
            from annet.annlib.diff import gen_pre_as_diff
            from annet import patching
            wantd = "".join(gen_pre_as_diff(patching.make_pre(d), False, "  ", True))
        except Exception as e:  # noqa
            want = "exc"
            wantd = None
    got = out[0][1] if out else ""
    gotd = dout[0][1] if dout else ""
    if out and out[0][0] == "exc":
        ok = want == "exc"
    else:
        ok = got == (want or "") and (wantd is None or gotd == wantd)
    return ok, {"file_patch_worker": got[:600], "device_patch": str(want)[:600], "file_diff": gotd[:300], "device_diff": str(wantd)[:300]}, bool(want)


def h_workers(case: int) -> bool:
    """
    pre: WLO <= case < WHI
    post: _ == True
    """
    c = pick(case, WHI, WLO)
    with NoTracing():
        v, i, j = PAIRS[c]
        ok, detail, nt = check_workers(v, i, j)
        rt.record({"vendor": v, "i": i, "j": j, "workers": True}, ok, [v, i, j] if nt else None, detail=detail,
                  fingerprint="C16:workers:%s" % v)
    return ok


def plan(tier):
    q = tier == "quick"
    obs = [dict(name="corpus", func="h_corpus", shards=16 if q else 32, timeout=280 if q else 1500)]
    for s in SYN:
        obs.append(dict(name="syn.%s" % s, func="h_syn", shards=8, timeout=280 if q else 1500, env={"VT_SYN": s}))
    obs.append(dict(name="workers", func="h_workers", shards=8, timeout=280 if q else 900))
    return obs


def replay(obligation, case):
    from vt.common import make_hw
    if case.get("workers"):
        ok, detail, _ = check_workers(case["vendor"], case["i"], case["j"])
        return {"ok": ok, "detail": detail, "fingerprint": "C16:workers:%s" % case["vendor"]}
    if "syn" in case:
        v, slots = SYN[case["syn"]]
        ok, detail, kind, _ = check_pair(_hw_of(v), unrank(slots, case["i"]), unrank(slots, case["j"]))
        return {"ok": ok, "detail": detail, "fingerprint": "C16:%s:%s" % (case["syn"], kind)}
    v = case["vendor"]
    ok, detail, kind, _ = check_pair(C[v]["hw"], C[v]["trees"][case["i"]], C[v]["trees"][case["j"]])
    return {"ok": ok, "detail": detail, "fingerprint": "C16:corpus:%s:%s" % (v, kind)}
