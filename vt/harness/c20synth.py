"""Synthetic patch-logic functions for C20: logic that writes to its `rule` argument (top level and nested, in place).
Registered as annet.rulebook.c20synth so that `%logic=c20synth.<name>` resolves through the normal import path."""
from annet.annlib.rulebook import common


def mutating(rule, key, diff, **kwargs):
    # everything a careless logic function could do to what it was handed
    rule["reverse"] = "CHANGED {}"
    rule["comment"] += ["leaked by c20synth.mutating"]
    rule.setdefault("context", {})["leak"] = "1"
    rule["extra"] = True
    fresh = dict(rule)
    fresh["reverse"] = "no z {}"
    yield from common.default(fresh, key, diff, **kwargs)


def install():
    import sys
    import annet.rulebook
    mod = sys.modules[__name__]
    sys.modules["annet.rulebook.c20synth"] = mod
    setattr(annet.rulebook, "c20synth", mod)
