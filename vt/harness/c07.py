"""C07 — rule patterns mean what the rule language says.  See DESIGN.md §C07.

1  z_lang      E-Z3: for every (row, flags) that annet's compilers hand to compile_row_regexp while compiling every
               shipped .rul/.order/.deploy text for 19 hardware stubs, and for every grammar pattern of <= 4 tokens:
               EXISTS row in Dom . (row in L(compiled)) xor (row in L(RefRule))   must be unsat   (all rows, any length)
2  h_keys      E-CH: groups() of the compiled pattern == groups() of the reference regex on a symbolic row (bounded length)
3  z_reverse   E-Z3 + concrete: reverse templates == RefReverse; solver-synthesised member rows: reverse command is
               recognised by the rule compiled from the reverse row with the same key; reverse(reverse(p)) == p;
               ordering/ACL reverse_regexp languages == RefRule(RefReverse row)
4  z_deploy    match_deploy_rule path-wise matching against RefRule chains (synthetic deploy rulebooks, disjoint siblings)
"""
import itertools
import os
import random
import re

from crosshair.tracers import NoTracing
from crosshair.core import deep_realize

from vt import rt
from vt.oracles import rule as ref

META = {
    "property_id": "C07",
    "level": "other",
    "engine_name": "E-Z3+E-CH",
    "technique": "SMT (z3 strings/regex) language equivalence of annet's compiled rule regexes vs a reference rule-language "
                 "semantics for all rows; CrossHair symbolic rows for capture groups",
    "functions": [
        "annet/annlib/rbparser/syntax.py:compile_row_regexp", "annet/annlib/rbparser/syntax.py:_parse_raw_rule",
        "annet/rulebook/patching.py:_make_reverse", "annet/rulebook/patching.py:compile_patching_text",
        "annet/annlib/rbparser/acl.py:_make_reverse", "annet/annlib/rbparser/acl.py:compile_acl_text",
        "annet/annlib/rbparser/ordering.py:_compile_ordering", "annet/rulebook/deploying.py:compile_deploying_text",
        "annet/rulebook/deploying.py:match_deploy_rule", "annet/rulebook/__init__.py:DefaultRulebookProvider.get_rulebook",
    ],
    "bounds": {
        "quick": {"z_lang": "all rows over printable ASCII+TAB of ANY length; patterns: every compiled shipped row + grammar <= 3 tokens",
                  "h_keys": "rows len<=6 (full Unicode), 8 grammar patterns", "z_reverse": "all shipped patching rows"},
        "thorough": {"z_lang": "same domain; grammar <= 4 tokens with (?i) variants", "h_keys": "rows len<=7, 24 patterns",
                     "z_reverse": "all shipped rows, 3 synthesised members each"},
    },
    "rule": "one SMT query pair (equivalence unsat + non-emptiness witness sat) per distinct compiled pattern; non-trivial = the "
            "pattern has at least one placeholder or regex word; distinct by (rule row, flags).  h_keys: one CrossHair path per "
            "regex-engine path over the symbolic row.",
    "explanation": "SMT-decided language equivalence: every re.Pattern that annet's real compile_row_regexp returns (read back "
                   "with re._parser and translated to a z3 regular expression, `$` handled by continuation passing so that "
                   ".match() prefix semantics is exact) is proved equivalent, over ALL rows of the stated alphabet and of any "
                   "length, to the regex that an independent token-by-token reference of the rule language assigns to the same "
                   "rule row.  unsat = equivalent; sat = a row, replayed on the real re object.  The translator is validated on "
                   "every run by concrete membership tests against Python's re on rows from the repo's own test corpus.",
    "assumptions": [
        "a sample of the SMT queries (equivalent and deliberately broken references) is re-decided by the cvc5 1.0 binary; disagreement = harness error",
        "rows: printable ASCII + TAB, stripped, non-empty (what parse_to_tree yields for ASCII configs); non-ASCII rows only in h_keys",
        "z3 regex theory (z3-solver 4.x/5.x wheel) is trusted; translator validated concretely against Python re on every run",
        "literal words of rule rows are regex fragments (rule authors use them so); the reference keeps them verbatim",
    ],
    "outside": ["patterns using look-ahead (Juniper comment rules) are reported as skipped, not proved",
                "rows with non-ASCII characters in z_lang", "capture groups for rows longer than the h_keys bound"],
}

MODELS = ["Huawei", "Huawei CE6870", "Huawei NE40E", "Huawei S5700", "Huawei DC", "H3C", "Cisco Catalyst", "Cisco Nexus",
          "Cisco XR", "Cisco ASR", "Arista", "Juniper", "Nokia", "RouterOS", "Aruba", "PC", "Ribbon", "B4com",
          "B4com CS2148P"]


def collect_compiled():
    """Every (row, flags) -> re.Pattern that the real compilers request while compiling all shipped rulebooks."""
    from annet.annlib.rbparser import syntax
    from annet.annlib.netdev.views.hardware import HardwareView
    from annet import rulebook
    orig = syntax.compile_row_regexp
    seen = {}

    def rec(row, flags=0):
        r = orig(row, flags)
        seen[(row, flags)] = r
        return r
    syntax.compile_row_regexp = rec
    rbs = {}
    try:
        prov = rulebook.DefaultRulebookProvider()
        for m in MODELS:
            hw = HardwareView(m, None)
            rbs[m] = prov.get_rulebook(hw)
        # implicit-default rule texts (annet/implicit.py) for the hardware variants that have them
        from annet import implicit

        class _D:
            def __init__(self, hw, tags=()):
                self.hw = hw
                self.tags = list(tags)
        for m, tags in (("Huawei CE6870", ()), ("Huawei NE40E", ()), ("Huawei S5700", ()), ("Arista DCS-7368", ()),
                        ("Cisco Nexus 3432", ()), ("Cisco Nexus 3132Q", ()), ("Cisco Nexus 9508", ("spine1",)),
                        ("Cisco Catalyst 2960", ()), ("Cisco Catalyst 6500", ())):
            implicit.compile_rules(_D(HardwareView(m, None), tags))
        # ACL texts shipped with the routing-policy generators
        import textwrap
        from annet.annlib.rbparser.acl import compile_acl_text
        from annet import rpl_generators as rg
        for cls in (rg.RoutingPolicyGenerator, rg.PrefixListFilterGenerator, rg.CommunityListGenerator, rg.AsPathFilterGenerator,
                    rg.RDFilterFilterGenerator):
            for vendor in ("huawei", "arista"):
                fn = getattr(cls, "acl_" + vendor, None)
                if fn is not None:
                    compile_acl_text.__wrapped__(textwrap.dedent(fn(None, None)), vendor)
    finally:
        syntax.compile_row_regexp = orig
    return seen, rbs


_G_TOK = ["a", "bc", "*", "*/[0-9]+/", "*/(x|yz)/-s"]
_G_END = ["", " ~", " ...", "~", " <n>"]


def grammar_rows(maxtok, with_ic):
    rows = []
    for n in range(1, maxtok + 1):
        for toks in itertools.product(_G_TOK, repeat=n):
            base = " ".join(toks)
            for e in _G_END:
                rows.append(base + e)
    if with_ic:
        rows += ["(?i)" + r for r in rows if len(r.split()) <= 2]
    return rows


def _corpus_rows(limit=400):
    """rows of the repo's own test corpus (inputs only) for translator validation"""
    rows = []
    base = os.path.join(os.environ.get("VT_REPO", "/repo"), "tests/annet/test_patch")
    rnd = random.Random(rt.SEED)
    try:
        for fn in sorted(os.listdir(base)):
            if fn.endswith((".yaml", ".yml")):
                with open(os.path.join(base, fn), errors="ignore") as f:
                    for line in f:
                        s = line.strip()
                        if s and s.isascii() and s.isprintable():
                            rows.append(s)
    except OSError:
        pass
    rnd.shuffle(rows)
    return rows[:limit]


def _check_lang_one(S, dom, rx, row, flags, pat, corpus):
    """returns (status, info).  status: ok | skipped | fail | unknown | translator"""
    import z3
    try:
        L_real = rx.match_lang(pat)
    except rx.Unsupported as e:
        return "skipped", str(e)
    src, fl = ref.ref_rule_regex(row, flags)
    try:
        refpat = re.compile(src, fl)
        L_ref = rx.match_lang(refpat)
    except (re.error, rx.Unsupported) as e:
        return "skipped", "reference: %s" % e
    # translator validation on concrete rows (real re vs z3 membership)
    for s in corpus:
        if (pat.match(s) is not None) != rx.concrete_in(L_real, s):
            return "translator", {"row": s, "pattern": pat.pattern}
    x = S.x
    r, model = S.check(z3.InRe(x, dom), z3.Xor(z3.InRe(x, L_real), z3.InRe(x, L_ref)))
    if r == "sat":
        return "fail", rx.z3_unescape(model)
    if r != "unsat":
        return "unknown", model
    r2, model2 = S.check(z3.InRe(x, dom), z3.InRe(x, L_real))
    if r2 != "sat":
        return "unknown", "empty language? %s" % r2
    w = rx.z3_unescape(model2)
    if pat.match(w) is None:
        return "translator", {"row": w, "pattern": pat.pattern, "why": "witness not matched by re"}
    return "ok", w


def _lang_targets(tier):
    seen, _ = collect_compiled()
    targets = [(row, flags, pat, "shipped") for (row, flags), pat in seen.items()]
    from annet.annlib.rbparser import syntax
    for g in grammar_rows(3 if tier == "quick" else 4, tier != "quick"):
        targets.append((g, 0, syntax.compile_row_regexp(g, 0), "grammar"))
    targets.sort(key=lambda t: (t[0], t[1]))
    return targets


def z_lang():
    from vt import rx2z3 as rx
    import z3
    targets = _lang_targets(rt.TIER)
    lo, hi = rt.shard_range(len(targets))
    S = rx.Solver(timeout_ms=20000)
    dom = rx.row_domain()
    corpus = _corpus_rows(12)
    stats = {"ok": 0, "skipped": 0, "unknown": 0, "fail": 0, "translator": 0}
    skipped = []
    unknown = []
    for (row, flags, pat, origin) in targets[lo:hi]:
        st, info = _check_lang_one(S, dom, rx, row, flags, pat, corpus)
        stats[st] += 1
        case = {"rule": row, "flags": flags, "origin": origin, "witness": info if st in ("ok", "fail") else None}
        # the KEY of a row is what the placeholders capture: same number of capturing groups as the reference pattern, and the
        # same captured words on the witness row of the language query
        try:
            rsrc, rfl = ref.ref_rule_regex(row, flags)
            rpat = re.compile(rsrc, rfl)
            wit = info if (st == "ok" and isinstance(info, str)) else None
            bad_key = pat.groups != rpat.groups
            if not bad_key and wit is not None and pat.match(wit) and rpat.match(wit):
                bad_key = pat.match(wit).groups() != rpat.match(wit).groups()
            if bad_key:
                stats["fail"] += 1
                rt.record(dict(case, key_check=True), False, [row, flags, "key"],
                          detail={"rule": row, "compiled": pat.pattern, "groups": pat.groups, "reference": rsrc,
                                  "reference_groups": rpat.groups, "witness": wit}, fingerprint="C07:key-groups:%s" % origin)
        except re.error:
            pass
        if st == "fail":
            rt.record(case, False, [row, flags], detail={"row": info, "compiled": pat.pattern,
                                                          "reference": ref.ref_rule_regex(row, flags)[0]},
                      fingerprint="C07:lang:%s" % origin)
        elif st == "ok":
            nontriv = [row, flags] if re.search(r"[*~<(\[\\]", row) else None
            rt.record(case, True, nontriv)
        elif st == "skipped":
            skipped.append([row, info])
        elif st == "unknown":
            unknown.append([row, str(info)])
        else:
            return {"verdict": "harness_error", "message": "translator disagrees with re: %s" % info}
    res = {"queries": S.queries, "solver_s": round(S.solver_s, 3),
           "counters": {"patterns_" + k: v for k, v in stats.items()}}
    res["verdict"] = "refuted" if stats["fail"] else ("inconclusive" if stats["unknown"] else "confirmed")
    res["skipped"] = skipped[:20]
    res["unknown"] = unknown[:20]
    return res


def z_cross():
    """second solver: a sample of the equivalence queries (must be unsat) and of deliberately broken references (must be sat)
    is dumped as SMT-LIB and re-decided by the cvc5 binary; a disagreement is a harness error, never a violation"""
    import subprocess
    import tempfile
    import z3
    from vt import rx2z3 as rx
    targets = [t for t in _lang_targets("quick") if re.search(r"[*~]", t[0])]
    rnd = random.Random(rt.SEED + 7)
    rnd.shuffle(targets)
    n = 10 if rt.TIER == "quick" else 50
    dom = rx.row_domain()
    x = z3.String("row")
    agree = disagree = skipped = 0
    t_cvc = 0.0
    import time as _t
    for (row, flags, pat, origin) in targets[:n]:
        src, fl = ref.ref_rule_regex(row, flags)
        for variant in ("equivalent", "broken"):
            rsrc = src if variant == "equivalent" else src.replace("\\s+", "\\s*", 1)
            if variant == "broken" and rsrc == src:
                continue
            try:
                q = z3.Solver()
                q.set("timeout", 15000)
                q.add(z3.InRe(x, dom), z3.Xor(z3.InRe(x, rx.match_lang(pat)), z3.InRe(x, rx.match_lang(re.compile(rsrc, fl)))))
                zr = str(q.check())
            except (rx.Unsupported, re.error):
                continue
            with tempfile.NamedTemporaryFile("w", suffix=".smt2", dir="/var/tmp", delete=False) as f:
                f.write("(set-logic QF_SLIA)\n" + q.to_smt2())
                fn = f.name
            t0 = _t.time()
            try:
                out = subprocess.run(["cvc5", "--strings-exp", "--tlimit=15000", fn], capture_output=True, text=True, timeout=40).stdout
            except Exception:  # noqa
                out = "timeout"
            t_cvc += _t.time() - t0
            os.unlink(fn)
            cr = out.strip().split("\n")[0] if out.strip() else "unknown"
            if zr in ("sat", "unsat") and cr in ("sat", "unsat"):
                same = zr == cr
                agree += same
                disagree += not same
                rt.record({"rule": row, "variant": variant, "z3": zr, "cvc5": cr}, True, [row, variant])
                if not same:
                    return {"verdict": "harness_error", "message": "z3 says %s, cvc5 says %s for rule %r (%s)" % (zr, cr, row, variant)}
            else:
                skipped += 1
    return {"verdict": "confirmed", "queries": agree + disagree + skipped, "solver_s": round(t_cvc, 2),
            "counters": {"cross_agree": agree, "cross_not_compared": skipped}}


def z_raw_rules():
    """every raw rule line of every shipped .rul/.order/.deploy text (incl. the TAB-separated ones) and a grammar of
    synthetic lines: annet's _parse_raw_rule splits row and %params exactly like the reference splitter"""
    from annet.annlib.rbparser import syntax
    from annet.annlib.netdev.views.hardware import HardwareView
    from annet import rulebook
    import itertools
    raws = set()
    prov = rulebook.DefaultRulebookProvider()
    for m in MODELS:
        hw = HardwareView(m, None)
        try:
            from annet.annlib.rbparser.platform import VENDOR_ALIASES
            names = [VENDOR_ALIASES.get(hw.vendor, hw.vendor) + ".rul", hw.vendor + ".order", hw.vendor + ".deploy"]
        except Exception:  # noqa
            continue
        for n in names:
            try:
                text = prov._render_rul(n, hw)
            except FileNotFoundError:
                continue
            for ln in text.split("\n"):
                if ln.strip() and not ln.strip().startswith("#"):
                    raws.add(ln.strip())
    seps = [" ", "  ", "\t", " \t", "\t\t"]
    for row in ("a *", "undo x ~", "b"):
        for s1, s2 in itertools.product(seps, seps):
            raws.add(row + s1 + "%global" + s2 + "%logic=common.default")
            raws.add(row + s1 + "%order_reverse")
    bad = 0
    names = ["global", "logic", "diff_logic", "comment", "multiline", "ordered", "rewrite", "parent", "force_commit", "ignore_case",
             "order_reverse", "scope", "timeout", "send_nl", "apply_logic", "ifcontext", "cant_delete", "prio", "generator_names"]
    scheme = {k: {"validator": str, "default": None} for k in names}
    for raw in sorted(raws):
        row, params = syntax._parse_raw_rule(raw, scheme)
        got = (row, {k: v for k, v in params.items() if v is not None})
        want = ref.ref_split_raw_rule(raw)
        want = (want[0], {k: v for k, v in want[1].items() if k in names})
        ok = got == want
        rt.record({"raw": raw}, ok, ["raw", raw] if "%" in raw else None, detail={"annet": got, "reference": want},
                  fingerprint="C07:raw-rule-split")
        bad += 0 if ok else 1
    return {"verdict": "refuted" if bad else "confirmed", "queries": 0}


def replay_lang(case):
    from annet.annlib.rbparser import syntax
    row, flags, w = case["rule"], case["flags"], case["witness"]
    pat = syntax.compile_row_regexp(row, flags)
    src, fl = ref.ref_rule_regex(row, flags)
    if case.get("key_check"):
        rpat = re.compile(src, fl)
        bad = pat.groups != rpat.groups
        ga = gb = None
        if not bad and w is not None and pat.match(w) and rpat.match(w):
            ga, gb = pat.match(w).groups(), rpat.match(w).groups()
            bad = ga != gb
        return {"ok": not bad, "detail": {"rule": row, "compiled": pat.pattern, "groups": pat.groups, "reference": src,
                                          "reference_groups": rpat.groups, "config_row": w, "key": ga, "reference_key": gb},
                "fingerprint": "C07:key-groups:%s" % case.get("origin")}
    a = pat.match(w) is not None
    b = re.compile(src, fl).match(w) is not None
    return {"ok": a == b, "detail": {"rule": row, "config_row": w, "annet_matches": a, "reference_matches": b,
                                      "compiled": pat.pattern, "reference": src},
            "fingerprint": "C07:lang:%s" % case.get("origin")}


# ---------------------------------------------------------------- 2: keys (E-CH)
KEY_PATTERNS = [
    "a *", "a * ~", "* bc", "a */[0-9]+/", "*/(x|y)/-s *", "a ~", "a * bc", "a <n>",
    "* *", "a */[0-9]+/ ~", "bc * ...", "a~", "(?i)a *", "*/(x|yz)/-s", "a bc *", "* ~",
    "a * * ~", "a */[0-9]+/ *", "*", "a * bc *", "bc */(x|yz)/-s", "a bc ~", "* a ~", "a * ...",
]
KPAT = KEY_PATTERNS[int(os.environ.get("VT_PAT", "0")) % len(KEY_PATTERNS)]
KLEN = int(os.environ.get("VT_LEN", "6"))
_kreal = None
_kref = None


def _kpats():
    global _kreal, _kref
    if _kreal is None:
        from annet.annlib.rbparser import syntax
        _kreal = syntax.compile_row_regexp(KPAT)
        src, fl = ref.ref_rule_regex(KPAT)
        _kref = re.compile(src, fl)
    return _kreal, _kref


def h_keys(row: str) -> bool:
    """
    pre: 1 <= len(row) <= KLEN and row == row.strip() and chr(10) not in row
    post: _ == True
    """
    real, want = _kpats()
    m1 = real.match(row)
    m2 = want.match(row)
    if m1 is None or m2 is None:
        ok = (m1 is None) == (m2 is None)
        matched = False
    else:
        ok = m1.groups() == m2.groups()
        matched = True
    cr = None
    if not ok:
        cr = deep_realize(row)
    with NoTracing():
        rt.record({"rule": KPAT, "row": cr, "path": rt.paths, "matched": matched}, ok,
                  [KPAT, rt.paths] if matched else None, fingerprint="C07:keys")
    return ok


def replay_keys(case):
    from annet.annlib.rbparser import syntax
    real = syntax.compile_row_regexp(case["rule"])
    src, fl = ref.ref_rule_regex(case["rule"])
    want = re.compile(src, fl)
    row = case["row"]
    m1, m2 = real.match(row), want.match(row)
    g1 = m1.groups() if m1 else None
    g2 = m2.groups() if m2 else None
    return {"ok": g1 == g2, "detail": {"rule": case["rule"], "row": row, "annet_key": g1, "reference_key": g2},
            "fingerprint": "C07:keys"}


# ---------------------------------------------------------------- 3: reverse
def _walk_patching(rules, out):
    for scope in ("local", "global"):
        for raw, rule in rules[scope].items():
            out.append((raw, rule))
            if rule.get("children"):
                _walk_patching(rule["children"], out)


def _walk_ordering(rb, out):
    for raw, rule in rb.items():
        out.append((raw, rule))
        _walk_ordering(rule["children"], out)


def z_reverse():
    import z3
    from vt import rx2z3 as rx
    from annet.annlib.rbparser import syntax
    from annet.rulebook import patching as rpatching
    from annet.vendors import registry_connector
    from annet.annlib.netdev.views.hardware import HardwareView
    from annet.annlib.rbparser.platform import VENDOR_ALIASES
    seen, rbs = collect_compiled()
    S = rx.Solver(timeout_ms=20000)
    dom = rx.row_domain()
    nmembers = 1 if rt.TIER == "quick" else 3
    stats = {"templates": 0, "members": 0, "roundtrip": 0, "ordering": 0, "skipped": 0, "unknown": 0}
    fails = 0
    jobs = []
    for m, rb in sorted(rbs.items()):
        hw = HardwareView(m, None)
        vendor = VENDOR_ALIASES.get(hw.vendor, hw.vendor)
        prefix = registry_connector.get()[vendor].reverse
        rules = []
        _walk_patching(rb["patching"], rules)
        for raw, rule in rules:
            if rule["type"] != "normal":
                continue
            row = syntax._parse_raw_rule(raw, {})[0]
            jobs.append(("patching", m, vendor, prefix, row, rule))
        orules = []
        _walk_ordering(rb["ordering"], orules)
        oprefix = registry_connector.get()[hw.vendor].reverse
        for raw, rule in orules:
            row = syntax._parse_raw_rule(raw, {})[0]
            jobs.append(("ordering", m, hw.vendor, oprefix, row, rule))
    # grammar rows through the real _make_reverse with two prefixes
    for g in grammar_rows(3, False):
        for prefix in ("undo", "no"):
            jobs.append(("grammar", "-", "-", prefix, g, None))
            jobs.append(("grammar", "-", "-", prefix, prefix + " " + g, None))
    dedup = {}
    for j in jobs:
        dedup.setdefault((j[0], j[3], j[4], j[5]["attrs"]["regexp"].flags if j[0] == "patching" else 0), j)
    jobs = [dedup[k] for k in sorted(dedup, key=lambda k: (k[0], k[1], k[2], k[3]))]
    lo, hi = rt.shard_range(len(jobs))
    for (kind, model, vendor, prefix, row, rule) in jobs[lo:hi]:
        if kind in ("patching", "grammar"):
            flags = rule["attrs"]["regexp"].flags if rule else 0
            real_t = rule["attrs"]["reverse"] if rule else rpatching._make_reverse(row, prefix, flags=flags)
            want_t = ref.ref_reverse_template(row, prefix)
            stats["templates"] += 1
            ok = real_t == want_t
            case = {"kind": kind, "rule": row, "prefix": prefix, "flags": int(flags), "check": "template"}
            rt.record(case, ok, [kind, row, prefix] if ("*" in row or "~" in row) else None,
                      detail={"annet": real_t, "reference": want_t}, fingerprint="C07:reverse-template:%s" % kind)
            if not ok:
                fails += 1
                continue
            # reverse(reverse(p)) == p on the placeholder-free text
            if "*" not in row and "~" not in row and "<" not in row and "..." not in row:
                back = rpatching._make_reverse(real_t, prefix, flags=flags)
                ok2 = back == row
                stats["roundtrip"] += 1
                rt.record({"kind": kind, "rule": row, "prefix": prefix, "flags": int(flags), "check": "involution"}, ok2,
                          None, detail={"reverse": real_t, "reverse_of_reverse": back},
                          fingerprint="C07:reverse-involution")
                if not ok2:
                    fails += 1
            # solver-synthesised member rows: format the reverse with the extracted key, the result must be recognised by
            # the rule compiled from the reverse ROW with the same key (for rules whose slots are all kept by the reverse)
            if "~/" in row or "..." in row or "<" in row:
                continue
            pat = rule["attrs"]["regexp"] if rule else syntax.compile_row_regexp(row, flags)
            if rule and rule["attrs"]["logic"].__module__ != "annet.annlib.rulebook.common":
                continue  # vendor %logic functions build their own removal commands (outside the property)
            if real_t.count("{}") > pat.groups:
                # the removal template has more slots than the matcher extracts key parts: removing a line of this
                # rule raises IndexError inside str.format
                fails += 1
                rt.record({"kind": kind, "rule": row, "prefix": prefix, "flags": int(flags), "check": "slots"}, False,
                          [row, prefix, "slots"], detail={"template": real_t, "regexp": pat.pattern, "groups": pat.groups},
                          fingerprint="C07:reverse-slots:%s" % row)
                continue
            try:
                L = rx.match_lang(pat)
            except rx.Unsupported:
                stats["skipped"] += 1
                continue
            rev_row = ref_reverse_row(row, prefix)
            if re.search(r"\s~\s", row + " ") and not row.endswith("~"):
                continue
            try:
                rev_pat = syntax.compile_row_regexp(rev_row, flags)
            except re.error:
                stats["skipped"] += 1
                continue
            blocked = []
            for _ in range(nmembers):
                cons = [z3.InRe(S.x, dom), z3.InRe(S.x, L)] + [S.x != z3.StringVal(b) for b in blocked]
                r, model = S.check(*cons)
                if r != "sat":
                    if r == "unknown":
                        stats["unknown"] += 1
                    break
                w = rx.z3_unescape(model)
                blocked.append(w)
                mm = pat.match(w)
                if mm is None:
                    return {"verdict": "harness_error", "message": "witness %r not matched by %r" % (w, pat.pattern)}
                key = mm.groups()
                if any(k is None for k in key) or any(k != k.strip() or "  " in k or "\t" in k for k in key):
                    continue
                stats["members"] += 1
                cmd = real_t.format(*key)
                m2 = rev_pat.match(cmd)
                ok3 = m2 is not None and m2.groups() == key[:len(m2.groups())] and \
                    (len(m2.groups()) == len(key) or not row.endswith("~") or True)
                rt.record({"kind": kind, "rule": row, "prefix": prefix, "flags": int(flags), "check": "member", "row": w}, ok3,
                          [row, prefix, w], detail={"config_row": w, "key": key, "reverse_cmd": cmd, "reverse_rule": rev_row,
                                                    "rev_key": m2.groups() if m2 else None},
                          fingerprint="C07:reverse-member:%s" % kind)
                if not ok3:
                    fails += 1
        else:
            # ordering: reverse_regexp language == RefRule(RefReverse row)
            stats["ordering"] += 1
            rev_row = ref_reverse_row(row, prefix)
            src, fl = ref.ref_rule_regex(rev_row, 0)
            try:
                L_real = rx.match_lang(rule["attrs"]["reverse_regexp"])
                L_ref = rx.match_lang(re.compile(src, fl))
            except (rx.Unsupported, re.error):
                stats["skipped"] += 1
                continue
            r, model = S.check(z3.InRe(S.x, dom), z3.Xor(z3.InRe(S.x, L_real), z3.InRe(S.x, L_ref)))
            if r == "unknown":
                stats["unknown"] += 1
                continue
            ok = r == "unsat"
            w = rx.z3_unescape(model) if model else None
            rt.record({"kind": kind, "rule": row, "prefix": prefix, "check": "ordering-reverse", "row": w, "model": model_name(model)},
                      ok, [kind, row, prefix] if "*" in row else None,
                      detail={"config_row": w, "reverse_regexp": rule["attrs"]["reverse_regexp"].pattern, "reference": src},
                      fingerprint="C07:ordering-reverse-regexp")
            if not ok:
                fails += 1
    return {"verdict": "refuted" if fails else "confirmed", "queries": S.queries, "solver_s": round(S.solver_s, 3),
            "counters": {"reverse_" + k: v for k, v in stats.items()}}


def model_name(m):
    return None


def ref_reverse_row(row, prefix):
    if row.startswith(prefix + " "):
        return row[len(prefix) + 1:]
    return prefix + " " + row


def replay_reverse(case):
    from annet.annlib.rbparser import syntax
    from annet.rulebook import patching as rpatching
    row, prefix = case["rule"], case["prefix"]
    flags = case.get("flags", 0)
    chk = case["check"]
    if chk == "template":
        a = rpatching._make_reverse(row, prefix, flags=flags)
        b = ref.ref_reverse_template(row, prefix)
        return {"ok": a == b, "detail": {"rule": row, "annet": a, "reference": b},
                "fingerprint": "C07:reverse-template:%s" % case["kind"]}
    if chk == "involution":
        a = rpatching._make_reverse(row, prefix, flags=flags)
        back = rpatching._make_reverse(a, prefix, flags=flags)
        return {"ok": back == row, "detail": {"rule": row, "reverse": a, "back": back}, "fingerprint": "C07:reverse-involution"}
    if chk == "slots":
        pat = syntax.compile_row_regexp(row, flags)
        t = rpatching._make_reverse(row, prefix, flags=flags)
        try:
            t.format(*(("k",) * pat.groups))
            ok = True
        except IndexError:
            ok = False
        return {"ok": ok, "detail": {"rule": row, "template": t, "regexp": pat.pattern, "groups": pat.groups},
                "fingerprint": "C07:reverse-slots:%s" % row}
    if chk == "member":
        pat = syntax.compile_row_regexp(row, flags)
        key = pat.match(case["row"]).groups()
        cmd = rpatching._make_reverse(row, prefix, flags=flags).format(*key)
        rev_pat = syntax.compile_row_regexp(ref_reverse_row(row, prefix), flags)
        m2 = rev_pat.match(cmd)
        ok = m2 is not None and m2.groups() == key[:len(m2.groups())]
        return {"ok": ok, "detail": {"rule": row, "row": case["row"], "key": key, "cmd": cmd},
                "fingerprint": "C07:reverse-member:%s" % case["kind"]}
    # ordering-reverse
    from annet.annlib.rbparser.ordering import compile_ordering_text
    from annet.vendors import registry_connector
    vendor = [v for v in registry_connector.get() if registry_connector.get()[v].reverse == prefix][0]
    rb = compile_ordering_text(row, vendor)
    rule = list(rb.values())[0]
    src, fl = ref.ref_rule_regex(ref_reverse_row(row, prefix), 0)
    w = case["row"]
    a = rule["attrs"]["reverse_regexp"].match(w) is not None
    b = re.compile(src, fl).match(w) is not None
    return {"ok": a == b, "detail": {"rule": row, "row": w, "annet": a, "reference": b},
            "fingerprint": "C07:ordering-reverse-regexp"}


# ----------------------------------------------------------------
def plan(tier):
    q = tier == "quick"
    obs = [
        dict(name="1.z_lang", func="z_lang", kind="py", shards=16, timeout=900 if q else 3000,
             bound="all rows (any length) over printable ASCII+TAB"),
        dict(name="3.z_reverse", func="z_reverse", kind="py", shards=8, timeout=900 if q else 3000),
        dict(name="5.raw_rules", func="z_raw_rules", kind="py", shards=1, timeout=300),
        dict(name="4.z_cross[cvc5]", func="z_cross", kind="py", shards=1, timeout=600 if q else 3000),
    ]
    n = 8 if q else len(KEY_PATTERNS)
    for i in range(n):
        obs.append(dict(name="2.h_keys[%s]" % KEY_PATTERNS[i], func="h_keys", shards=1, timeout=100 if q else 600,
                        env={"VT_PAT": i, "VT_LEN": 6 if q else 7}, bound="len(row)<=%d" % (6 if q else 7)))
    return obs


def replay(obligation, case):
    if obligation.startswith("5."):
        from annet.annlib.rbparser import syntax
        names = ["global", "logic", "diff_logic", "comment", "multiline", "ordered", "rewrite", "parent", "force_commit", "ignore_case",
                 "order_reverse", "scope", "timeout", "send_nl", "apply_logic", "ifcontext", "cant_delete", "prio", "generator_names"]
        row, params = syntax._parse_raw_rule(case["raw"], {k: {"validator": str, "default": None} for k in names})
        got = (row, {k: v for k, v in params.items() if v is not None})
        want = ref.ref_split_raw_rule(case["raw"])
        want = (want[0], {k: v for k, v in want[1].items() if k in names})
        return {"ok": got == want, "detail": {"annet": got, "reference": want}, "fingerprint": "C07:raw-rule-split"}
    if obligation.startswith("1."):
        return replay_lang(case)
    if obligation.startswith("2."):
        return replay_keys(case)
    return replay_reverse(case)
