"""C09 — the command stream sent at deploy is exactly the patch that was shown.  See DESIGN.md §C09."""
import itertools
import os
import re
from collections import OrderedDict as odict

from crosshair.tracers import NoTracing
from crosshair.core import deep_realize

from vt import rt
from vt.common import pick, digits, make_hw, tree_to_json
from vt.space import S, count, unrank
from vt.oracles.rule import ref_rule_regex
from vt.oracles import device as refdev

META = {
    "property_id": "C09",
    "level": "exploration",
    "technique": "CrossHair/z3: symbolic do_commit/do_finalize through common.apply for every vendor; solver-certified exhaustion of "
                 "bounded PatchTree spaces through formatter.patch / cmd_paths / apply_deploy_rulebook with a reference deploy-rule matcher",
    "functions": [
        "annet/annlib/tabparser.py:CommonFormatter.patch", "annet/annlib/tabparser.py:CommonFormatter.cmd_paths",
        "annet/annlib/tabparser.py:BlockExitFormatter.blocks_and_context", "annet/annlib/tabparser.py:HuaweiFormatter.block_exit",
        "annet/annlib/tabparser.py:CiscoFormatter.block_exit", "annet/annlib/tabparser.py:AsrFormatter.block_exit",
        "annet/deploy.py:apply_deploy_rulebook", "annet/deploy.py:make_cmd_params", "annet/deploy.py:fill_cmd_params",
        "annet/annlib/rulebook/common.py:apply", "annet/rulebook/deploying.py:match_deploy_rule",
        "annet/rulebook/deploying.py:compile_deploying_text", "annet/annlib/rbparser/deploying.py:compile_messages",
    ],
    "rule": "stream: one path per (vendor, PatchTree, do_commit, do_finalize) index; non-trivial = tree has a nested block; "
            "wrapper: one path per (vendor, do_commit, do_finalize) with the two flags symbolic",
    "explanation": "",
    "assumptions": ["PatchTrees have distinct sibling rows (the property's domain)",
                    "synthetic deploy rulebook with pairwise disjoint sibling rules and distinct timeouts per rule; annet.deploy.get_rulebook "
                    "stubbed to return it for the timeout/dialog obligation",
                    "block-structured vendors: huawei, cisco, nexus, asr (iosxr), arista, aruba, b4com"],
    "outside": ["juniper/nokia/routeros/ribbon flattened syntaxes", "duplicate sibling rows (e.g. two 'commit' rows from force_commit)",
                "%ifcontext deploy rules"],
    "bounds": {},
}

VENDORS = [("huawei", "Huawei CE6870"), ("cisco", "Cisco Catalyst"), ("nexus", "Cisco Nexus"), ("asr", "Cisco ASR"),
           ("arista", "Arista"), ("aruba", "Aruba"), ("b4com", "B4com")]
EXITS = {"quit", "exit", "end-filter", "end-list", "endif", "exit-address-family", "end-set", "end-policy"}

COMMON = [S(["a"]), S(["undo a2"]), S(["b 1"], [S(["c"]), S(["d 1"], [S(["e"], [S(["f"])])]), S(["undo d 2"])]), S(["b 2"], [S(["c"])]),
          S(["EMPTYBLOCK p"]), S(["k 1"], [S(["c"])])]
SPECIAL = {
    "huawei": [S(["xpl route-filter F"], [S(["if x then"], [S(["apply y"])]), S(["if y then"], [S(["apply z"])]), S(["else"], [S(["refuse"])])]),
               S(["xpl ip-prefix-list L"], [S(["10.0.0.0 8"])]),
               S(["xpl as-path-list A"], [S(["ios-regex 1"])]),
               S(["rsa peer-public-key k"], [S(["public-key-code begin"], [S(["AAAA"])])])],
    "cisco": [S(["router bgp 1"], [S(["address-family ipv4"], [S(["network x"])]), S(["neighbor y"])])],
    "asr": [S(["route-policy P"], [S(["if a then"], [S(["pass"])]), S(["drop"])]), S(["prefix-set S"], [S(["1.1.1.1/32"])])],
}

DEPLOY_TEXT = """
a %timeout=11
b * %timeout=12
    c %timeout=13
        dialog: Continue? [Y/N] ::: Y
    d * %timeout=14
        e %timeout=17
undo a2 %timeout=15
xpl ~ %timeout=18
    if ~ %timeout=19
k * %timeout=21
c %timeout=23
rsa ~ %timeout=25
public-key-code ~ %timeout=26
"""


COMMON_SMALL = [S(["a"]), S(["b 1"], [S(["c"]), S(["d 1"], [S(["e"])])]), S(["EMPTYBLOCK p"]), S(["k 1"], [S(["c"])])]


def slots_for(vname, tier=None):
    tier = tier or rt.TIER
    if vname == "huawei":
        # the Huawei-specific blocks multiply the space: the smaller common part in both tiers
        return COMMON_SMALL + SPECIAL["huawei"]
    return COMMON + SPECIAL.get(vname, [])


def build_patch(spec):
    from annet.annlib.patching import PatchTree
    pt = PatchTree()
    for row, sub in spec.items():
        if row.startswith("EMPTYBLOCK "):
            pt.add_block(row[len("EMPTYBLOCK "):], PatchTree(), {})
        elif sub:
            pt.add_block(row, build_patch(sub), {})
        else:
            pt.add(row, {})
    return pt


def preorder(spec, depth=0):
    out = []
    for row, sub in spec.items():
        r = row[len("EMPTYBLOCK "):] if row.startswith("EMPTYBLOCK ") else row
        out.append((depth, r))
        out.extend(preorder(sub, depth + 1))
    return out


# reference deploy-rule matcher
_dep_rules = None


def dep_rules():
    global _dep_rules
    if _dep_rules is None:
        _dep_rules = refdev.parse_rules("\n".join(ln for ln in DEPLOY_TEXT.split("\n") if "dialog:" not in ln))
    return _dep_rules


def ref_deploy(path):
    """(timeout, has_dialog) of the unique rule chain matching the path; (30, False) otherwise"""
    level = dep_rules()
    for i, row in enumerate(path):
        hits = [r for r in level if r.rx.match(row)]
        if i == len(path) - 1:
            if hits:
                return float(hits[0].params.get("timeout", 30)), hits[0].row == "c"
            return 30.0, False
        if hits:
            level = hits[-1].children
    return 30.0, False


_vctx = {}


def vctx(vi):
    if vi not in _vctx:
        from annet.annlib.netdev.views.hardware import HardwareView
        from annet.vendors import registry_connector
        from annet.rulebook.deploying import compile_deploying_text
        name, model = VENDORS[vi]
        hw = HardwareView(model, None)
        fmt = registry_connector.get().match(hw).make_formatter()
        _vctx[vi] = {"hw": hw, "fmt": fmt, "name": name,
                     "dep": {"deploying": compile_deploying_text(DEPLOY_TEXT, hw.vendor)}}
    return _vctx[vi]


def check_stream(vi, spec, do_commit, do_finalize):
    import annet.deploy as dep
    from annet.annlib.rulebook import common
    c = vctx(vi)
    fmt, hw = c["fmt"], c["hw"]
    base = {"vendor": c["name"], "tree": tree_to_json(spec), "do_commit": do_commit, "do_finalize": do_finalize}
    pt = build_patch(spec)
    try:
        text = fmt.patch(pt)
        paths = list(fmt.cmd_paths(pt).keys())
    except Exception as e:  # noqa
        return False, dict(base, error=repr(e)), "exception:%s" % type(e).__name__, False
    ind = fmt._indent
    shown = []
    for ln in (text.split("\n") if text else []):
        d = 0
        while ind and ln.startswith(ind):
            ln = ln[len(ind):]
            d += 1
        shown.append((d, ln))
    stream = [(len(p) - 1, p[-1]) for p in paths]
    if shown != stream:
        return False, dict(base, shown=shown, stream=stream), "stream-differs-from-displayed-patch", True
    # every tree row exactly once, in pre-order, at its depth; only block-exit words are added
    want = preorder(spec)
    k = 0
    for (d, row) in stream:
        if k < len(want) and (d, row) == want[k]:
            k += 1
        elif row in EXITS:
            continue
        else:
            return False, dict(base, stream=stream, expected_next=want[k] if k < len(want) else None, got=(d, row)), "command-lost-duplicated-or-misplaced", True
    if k != len(want):
        return False, dict(base, stream=stream, missing=want[k:]), "command-lost-duplicated-or-misplaced", True
    # deploy stream
    saved = dep.get_rulebook
    dep.get_rulebook = lambda hw_: c["dep"]
    try:
        cmdlist = list(dep.apply_deploy_rulebook(hw, fmt.cmd_paths(pt), do_finalize=do_finalize, do_commit=do_commit))
        before, after = common.apply(hw, do_commit=do_commit, do_finalize=do_finalize)
    except Exception as e:  # noqa
        return False, dict(base, error=repr(e)), "exception:%s" % type(e).__name__, False
    finally:
        dep.get_rulebook = saved
    before, after = list(before), list(after)
    if not paths:
        if cmdlist:
            return False, dict(base, cmds=[x.cmd for x in cmdlist]), "commands-for-empty-patch", True
        return True, None, None, False
    got_before = [x.cmd for x in cmdlist[:len(before)]]
    got_after = [x.cmd for x in cmdlist[len(cmdlist) - len(after):]] if after else []
    body = cmdlist[len(before):len(cmdlist) - len(after)]
    if got_before != [x.cmd for x in before] or got_after != [x.cmd for x in after]:
        return False, dict(base, cmds=[x.cmd for x in cmdlist], before=[x.cmd for x in before], after=[x.cmd for x in after]), "wrapper-differs", True
    if [(x.level, x.cmd) for x in body] != stream:
        return False, dict(base, body=[(x.level, x.cmd) for x in body], stream=stream), "deploy-body-differs-from-patch", True
    if not do_commit and any(x.cmd.startswith("commit") for x in cmdlist):
        return False, dict(base, cmds=[x.cmd for x in cmdlist]), "commit-sent-although-disabled", True
    for x, p in zip(body, paths):
        t, dlg = ref_deploy(p)
        q = x.questions or []
        if float(x.timeout) != t or bool(q) != dlg or (dlg and (q[0].answer != "Y" or "Continue?" not in q[0].question)):
            return False, dict(base, path=p, timeout=x.timeout, questions=str(q), want=[t, dlg]), "timeout-or-dialog-of-wrong-rule", True
    return True, None, None, any(d > 0 for d, _ in stream)


VI = int(os.environ.get("VT_VENDOR", "0"))
SLOTS = slots_for(VENDORS[VI][0])
N = count(SLOTS)
# quick: both flags on / both off (every flag pair is covered for all hardware by wrapper.symbolic-flags and apply.groups)
FLAGS = [0, 3] if rt.TIER == "quick" else [0, 1, 2, 3]
NC = N * len(FLAGS)
LO, HI = rt.shard_range(NC)


def h_stream(case: int) -> bool:
    """
    pre: LO <= case < HI
    post: _ == True
    """
    c = pick(case, HI, LO)
    with NoTracing():
        ti, fl = c // len(FLAGS), FLAGS[c % len(FLAGS)]
        spec = unrank(SLOTS, ti)
        ok, detail, kind, nt = check_stream(VI, spec, bool(fl & 1), bool(fl & 2))
        rt.record({"vendor": VI, "tree_idx": ti, "flags": fl, "tier": rt.TIER}, ok, [VI, ti, fl] if nt else None, detail=detail,
                  fingerprint="C09:%s:%s" % (VENDORS[VI][0], kind))
    return ok


# ---------------------------------------------------------------- PatchTrees produced by make_patch (incl. %force_commit rules)
MADE_RB = """
x * %force_commit
y *
b *
    c * %force_commit
    d *
"""
MADE_SLOTS = [S(["x 1"]), S(["x 2", "x 2 v"]), S(["y 1"]), S(["b 1"], [S(["c 1"]), S(["c 2"]), S(["d 1"])])]
NM = count(MADE_SLOTS)
MLO, MHI = rt.shard_range(NM * NM * 2)


def check_made(vi, old, new):
    from annet import api
    from vt.common import make_rb, StubDevice
    c = vctx(vi)
    rb = make_rb(MADE_RB, c["hw"].vendor)
    _, pt = api._diff_and_patch(StubDevice(c["hw"]), old, new, None, None, False, rb=rb)
    fmt = c["fmt"]
    text = fmt.patch(pt)
    ind = fmt._indent
    shown = []
    for ln in (text.split("\n") if text else []):
        d = 0
        while ind and ln.startswith(ind):
            ln = ln[len(ind):]
            d += 1
        shown.append((d, ln))
    stream = [(len(p) - 1, p[-1]) for p in fmt.cmd_paths(pt).keys()]
    if shown == stream:
        return True, None, None, len(stream) > 1
    detail = {"vendor": c["name"], "old": tree_to_json(old), "new": tree_to_json(new), "shown": shown, "stream": stream}
    # explained by a repeated sibling command that the path-keyed mapping keeps only once?
    lost = list(shown)
    for x in stream:
        if x in lost:
            lost.remove(x)
    rows = sorted(set(r for _d, r in lost))
    if lost and [x for x in shown if x not in lost or True] and all(shown.count(x) > 1 for x in lost):
        return False, detail, "repeated-sibling-command-sent-once:%s" % ",".join(rows), True
    return False, detail, "stream-differs-from-displayed-patch", True


def h_made(case: int) -> bool:
    """
    pre: MLO <= case < MHI
    post: _ == True
    """
    c = pick(case, MHI, MLO)
    with NoTracing():
        vi, i, j = digits(c, [2, NM, NM])
        vi = [0, 3][vi]
        ok, detail, kind, nt = check_made(vi, unrank(MADE_SLOTS, i), unrank(MADE_SLOTS, j))
        fp = "C09:make_patch:%s" % kind
        rt.record({"made": True, "vendor": vi, "i": i, "j": j}, ok, [vi, i, j] if nt else None, detail=detail, fingerprint=fp)
    return ok or rt.is_known(fp)


# ---------------------------------------------------------------- commands under different session wrappers (%apply_logic)
GROUP_DEPLOY = "a\nk * %apply_logic=aruba.ap_env.apply\nm\n"
GROUP_ROWS = ["a", "k 1", "m", "k 2"]
GROUP_PERMS = list(itertools.permutations(range(4)))
GROUP_HW = ["Cisco Catalyst", "Huawei CE6870", "Aruba"]
NG = len(GROUP_PERMS) * 4 * len(GROUP_HW)


def check_groups(hi, pi, fl):
    """commands governed by different apply logics are sent in the displayed order, each maximal run inside its own wrapper"""
    import annet.deploy as dep
    from annet.annlib.netdev.views.hardware import HardwareView
    from annet.annlib.patching import PatchTree
    from annet.annlib.rulebook import common
    from annet.rulebook.aruba import ap_env
    from annet.rulebook.deploying import compile_deploying_text
    from annet.vendors import registry_connector
    hw = HardwareView(GROUP_HW[hi], None)
    fmt = registry_connector.get().match(hw).make_formatter()
    do_commit, do_finalize = bool(fl & 1), bool(fl & 2)
    rows = [GROUP_ROWS[i] for i in GROUP_PERMS[pi]]
    pt = PatchTree()
    for r in rows:
        pt.add(r, {})
    rules = {"deploying": compile_deploying_text(GROUP_DEPLOY, hw.vendor)}
    saved = dep.get_rulebook
    dep.get_rulebook = lambda hw_: rules
    try:
        got = [x.cmd for x in dep.apply_deploy_rulebook(hw, fmt.cmd_paths(pt), do_finalize=do_finalize, do_commit=do_commit)]
    except Exception as e:  # noqa
        return False, {"error": repr(e)}, "groups:exception:%s" % type(e).__name__, True
    finally:
        dep.get_rulebook = saved

    def wrap(row):
        fn = ap_env.apply if row.startswith("k ") else common.apply
        b, a = fn(hw, do_commit=do_commit, do_finalize=do_finalize)
        return tuple(x.cmd for x in b), tuple(x.cmd for x in a)
    want = []
    i = 0
    while i < len(rows):
        w = wrap(rows[i])
        j = i
        while j < len(rows) and wrap(rows[j]) == w:
            j += 1
        want.extend(w[0])
        want.extend(rows[i:j])
        want.extend(w[1])
        i = j
    if got != want:
        return False, {"hw": GROUP_HW[hi], "shown_order": rows, "sent": got, "want": want, "do_commit": do_commit,
                       "do_finalize": do_finalize}, "groups:sent-stream-differs", True
    return True, None, None, True


def h_groups(case: int) -> bool:
    """
    pre: 0 <= case < NG
    post: _ == True
    """
    c = pick(case, NG)
    with NoTracing():
        hi, pi, fl = digits(c, [len(GROUP_HW), len(GROUP_PERMS), 4])
        ok, detail, kind, nt = check_groups(hi, pi, fl)
        rt.record({"groups": [hi, pi, fl]}, ok, [hi, pi, fl], detail=detail, fingerprint="C09:%s" % kind)
    return ok


ALLHW = ["Huawei CE6870", "Huawei NE40E", "Huawei S5700", "Arista", "Cisco ASR", "Cisco XRV", "Cisco Catalyst", "Cisco Nexus",
         "Juniper", "PC", "Nokia", "RouterOS", "Aruba", "Ribbon", "B4com CS2148P", "B4com", "H3C"]


def h_wrapper(hwi: int, do_commit: bool, do_finalize: bool) -> bool:
    """
    pre: 0 <= hwi < len(ALLHW)
    post: _ == True
    """
    # symbolic flags through the real common.apply for EVERY vendor branch: no commit command unless do_commit,
    # no save/write command unless do_finalize, never empty 'enter' for CLI vendors
    from annet.annlib.rulebook import common
    from annet.annlib.netdev.views.hardware import HardwareView
    i = pick(hwi, len(ALLHW))
    with NoTracing():
        hw = HardwareView(ALLHW[i], "")
    before, after = common.apply(hw, do_commit=do_commit, do_finalize=do_finalize)
    cmds = [c.cmd for c in before] + [c.cmd for c in after]
    ok = True
    kind = None
    if not do_commit:
        for c in cmds:
            if c.startswith("commit"):
                ok, kind = False, "commit-sent-although-disabled"
    if not do_finalize:
        for c in cmds:
            if c.startswith("save") or c.startswith("write") or c.startswith("copy running-config"):
                ok, kind = False, "save-sent-although-finalize-disabled"
    dc, df = deep_realize(do_commit), deep_realize(do_finalize)
    with NoTracing():
        rt.record({"hw": ALLHW[i], "do_commit": dc, "do_finalize": df}, ok, [i, dc, df], detail={"cmds": cmds},
                  fingerprint="C09:wrapper:%s" % kind)
    return ok


def h_twin(case: int) -> bool:
    """
    pre: 0 <= case < N
    post: _ == True
    """
    # reachability twin: "the stream never contains a block-exit command" must be refuted
    c = pick(case, N)
    with NoTracing():
        cx = vctx(VI)
        paths = list(cx["fmt"].cmd_paths(build_patch(unrank(SLOTS, c))).keys())
        ok = not any(p[-1] in EXITS for p in paths)
        rt.record({"c": c}, ok, c)
    return ok


def plan(tier):
    q = tier == "quick"
    obs = [dict(name="wrapper.symbolic-flags", func="h_wrapper", shards=1, timeout=250 if q else 900)]
    for vi, (name, _) in enumerate(VENDORS):
        obs.append(dict(name="stream[%s]" % name, func="h_stream", shards=16 if name == "huawei" else 8, timeout=280 if q else 1500,
                        env={"VT_VENDOR": vi}))
    obs.append(dict(name="made.by.make_patch", func="h_made", shards=4, timeout=280 if q else 900))
    obs.append(dict(name="apply.groups", func="h_groups", shards=1, timeout=200))
    obs.append(dict(name="twin", func="h_twin", shards=1, timeout=100, expect="refuted"))
    return obs


def replay(obligation, case):
    if obligation.startswith("wrapper"):
        from annet.annlib.rulebook import common
        from annet.annlib.netdev.views.hardware import HardwareView
        before, after = common.apply(HardwareView(case["hw"], ""), do_commit=case["do_commit"], do_finalize=case["do_finalize"])
        cmds = [c.cmd for c in before] + [c.cmd for c in after]
        kind = None
        if not case["do_commit"] and any(c.startswith("commit") for c in cmds):
            kind = "commit-sent-although-disabled"
        if not case["do_finalize"] and any(c.startswith(("save", "write", "copy running-config")) for c in cmds):
            kind = "save-sent-although-finalize-disabled"
        return {"ok": kind is None, "detail": {"cmds": cmds}, "fingerprint": "C09:wrapper:%s" % kind}
    if "groups" in case:
        ok, detail, kind, _ = check_groups(*case["groups"])
        return {"ok": ok, "detail": detail, "fingerprint": "C09:%s" % kind}
    if case.get("made"):
        ok, detail, kind, _ = check_made(case["vendor"], unrank(MADE_SLOTS, case["i"]), unrank(MADE_SLOTS, case["j"]))
        return {"ok": ok, "detail": detail, "fingerprint": "C09:make_patch:%s" % kind}
    vi = case["vendor"]
    spec = unrank(slots_for(VENDORS[vi][0], case.get("tier", "quick")), case["tree_idx"])
    ok, detail, kind, _ = check_stream(vi, spec, bool(case["flags"] & 1), bool(case["flags"] & 2))
    return {"ok": ok, "detail": detail, "fingerprint": "C09:%s:%s" % (VENDORS[vi][0], kind)}
