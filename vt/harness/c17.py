"""C17 — implicit defaults never override explicit config and never cause commands alone.  See DESIGN.md §C17."""
import copy
import os
import re
from collections import OrderedDict as odict

from crosshair.tracers import NoTracing

from vt import rt
from vt.common import pick, digits, StubDevice, tree_to_json
from vt.space import S, count, unrank
from vt.oracles.rule import ref_rule_regex

META = {
    "property_id": "C17",
    "level": "exploration",
    "technique": "z3 synthesis of member / near-miss rows for every implicit rule pattern (from the real compiled regexes) + "
                 "CrossHair/z3-certified exhaustion of the resulting per-hardware tree spaces through implicit.config, "
                 "merge_dicts and the shipped-rulebook diff/patch pipeline",
    "functions": [
        "annet/implicit.py:config", "annet/implicit.py:compile_rules", "annet/implicit.py:compile_tree",
        "annet/implicit.py:_implicit_tree", "annet/annlib/lib.py:merge_dicts", "annet/gen.py:_old_new_per_device (add_implicit)", "annet/api/__init__.py:_diff_and_patch",
        "annet/annlib/rbparser/syntax.py:compile_row_regexp",
    ],
    "rule": "one path per (hardware, tree t[, tree u]) index; rows per rule: absent / the default row / a z3-synthesised other "
            "member of the rule's language / a z3-synthesised near miss; non-trivial = implicit adds or withholds at least one "
            "default because of an explicit row; distinct by index",
    "explanation": "",
    "assumptions": ["hardware variants: Huawei CE/NE/other, Arista, Nexus 3432/3132Q/9316/9508+spine1 tag, Catalyst 2960/6500, Cisco other",
                    "row synthesis domain: printable ASCII, stripped", "gen.flow: normal and --clear (no_new) mode; devices.sequence: Nexus 9508 with/without the spine1 tag and a 9316 in one process"],
    "outside": ["implicit texts of hardware models not listed", "rows matching several implicit rules at once beyond the synthesised ones"],
    "bounds": {"quick": "at most 2 explicit rows in t (all choices from the synthesised row catalogue of the hardware), u empty or one row", "thorough": "at most 3 explicit rows in t, u from 12 choices"},
}

HWS = [("Huawei CE6870", ()), ("Huawei NE40E", ()), ("Huawei S5700", ()), ("Arista DCS-7368", ()), ("Cisco Nexus 3432", ()),
       ("Cisco Nexus 3132Q", ()), ("Cisco Nexus 9316", ()), ("Cisco Nexus 9508", ("spine1",)), ("Cisco Catalyst 2960", ()),
       ("Cisco Catalyst 6500", ()), ("Cisco ASR 1000", ())]


class _Dev(StubDevice):
    def __init__(self, hw, tags):
        super().__init__(hw)
        self.tags = list(tags)


_cache = {}


def hw_ctx(i):
    if i in _cache:
        return _cache[i]
    import z3
    from vt import rx2z3 as rx
    from annet import implicit
    from annet.annlib.netdev.views.hardware import HardwareView
    model, tags = HWS[i]
    hw = HardwareView(model, None)
    dev = _Dev(hw, tags)
    rules = implicit.compile_rules(dev)
    raw = implicit._implicit_tree(dev)
    Sv = rx.Solver(timeout_ms=10000)
    _ns = z3.Range("!", "~")
    _any = z3.Range(" ", "~")
    dom = z3.Union(_ns, z3.Concat(_ns, z3.Star(_any), _ns))
    short = z3.Length(Sv.x) <= 40

    def synth(rule_row, pat):
        """(other member, near miss) for the pattern, or None where z3 cannot produce one"""
        try:
            L = rx.match_lang(pat)
        except rx.Unsupported:
            return None, None
        first = rule_row.split()[0]
        r, m = Sv.check(z3.InRe(Sv.x, dom), short, z3.InRe(Sv.x, L), Sv.x != z3.StringVal(rule_row))
        member = rx.z3_unescape(m) if r == "sat" else None
        miss = None
        for cand in (first + " _", first + " 0", first + "_"):
            # cheap concrete near miss first; the solver is asked only when all candidates are members
            if pat.match(cand) is None:
                miss = cand
                break
        if miss is None:
            r, m = Sv.check(z3.InRe(Sv.x, dom), short, z3.Not(z3.InRe(Sv.x, L)), z3.PrefixOf(z3.StringVal(first + " "), Sv.x))
            miss = rx.z3_unescape(m) if r == "sat" else None
        if member is not None and pat.match(member) is None:
            raise RuntimeError("translator: %r not matched by %r" % (member, pat.pattern))
        if miss is not None and pat.match(miss) is not None:
            raise RuntimeError("translator: %r matched by %r" % (miss, pat.pattern))
        return member, miss

    atoms = []  # (parent rows tuple, row)
    from annet.vendors import registry_connector as _rc
    vprefix = _rc.get().match(hw).reverse

    def walk(raw_tree, crules, parents):
        for (_, attrs) in raw_tree.items():
            row = attrs["row"]
            rule = crules[row]
            member, miss = synth(row, rule["regexp"])
            rows = []
            if attrs["type"] != "ignore" or rule["regexp"].match(row):
                rows.append(row)
            if member and member not in rows:
                rows.append(member)
            for r_ in rows:
                atoms.append((parents, r_))
            if miss:
                atoms.append((parents, miss))
            if attrs["type"] != "ignore" and not attrs["children"]:
                # the literal opposite of a default line (`shutdown` for `no shutdown`): it does not match the rule's
                # pattern, so the default is still added beside it
                opp = row[len(vprefix) + 1:] if row.startswith(vprefix + " ") else vprefix + " " + row
                if rule["regexp"].match(opp) is None:
                    atoms.append((parents, opp))
            if attrs["children"] and rows:
                walk(attrs["children"], rule["children"], parents + (rows[-1],))
                if miss:
                    # the same children under a parent that does NOT match the block rule
                    for (_, ch) in attrs["children"].items():
                        if ch["type"] != "ignore":
                            atoms.append((parents + (miss,), ch["row"]))
    walk(raw, rules, ())
    seen = []
    for a_ in atoms:
        if a_ not in seen:
            seen.append(a_)
    atoms = seen
    sl = atoms
    from annet import rulebook
    from annet.vendors import registry_connector
    _cache[i] = {"hw": hw, "dev": dev, "rules": rules, "raw": raw, "atoms": sl, "n": len(sl), "queries": Sv.queries,
                 "solver_s": Sv.solver_s, "fmt": registry_connector.get().match(hw).make_formatter(),
                 "prefix": registry_connector.get().match(hw).reverse}
    return _cache[i]


# ---------------------------------------------------------------- reference
def ref_merge(t, raw_tree):
    """t completed with the defaults, written from the property: a default line is added at a parent iff the rule is not a
    match-only ('!') rule and no line at that parent matches the rule's pattern; matching blocks are completed recursively"""
    m = copy.deepcopy(t)
    added = []
    for (_, attrs) in raw_tree.items():
        src, fl = ref_rule_regex(attrs["row"])
        rx_ = re.compile(src, fl)
        matched = [line for line in t if rx_.match(line)]
        if attrs["type"] != "ignore" and not matched and attrs["row"] not in t:
            # a default block is added complete, i.e. with the defaults of its own children (idempotence)
            sub, a = ref_merge(odict(), attrs["children"] or {})
            m[attrs["row"]] = sub
            added.append((attrs["row"],))
            added.extend((attrs["row"],) + x for x in a)
        for line in matched:
            sub, a = ref_merge(t[line], attrs["children"] or {})
            m[line] = sub
            added.extend((line,) + x for x in a)
    return m, added


def _plain(t):
    return {k: _plain(v) for k, v in (t or {}).items()}


def _paths(t, p=()):
    out = []
    for k, v in (t or {}).items():
        out.append(p + (k,))
        out.extend(_paths(v, p + (k,)))
    return out


def check_tree(c, t):
    from annet import implicit
    from annet.annlib.lib import merge_dicts
    base = {"hw": str(c["hw"]), "tree": tree_to_json(t)}
    t0 = copy.deepcopy(t)
    try:
        imp = implicit.config(t, c["rules"])
        m = merge_dicts(t, imp)
    except Exception as e:  # noqa
        return False, dict(base, error=repr(e)), "exception:%s" % type(e).__name__, False, None, None
    if _plain(t) != _plain(t0):
        return False, base, "input-mutated", True, None, None
    want, added = ref_merge(t0, c["raw"])
    if _plain(m) != _plain(want):
        return False, dict(base, merged=tree_to_json(m), reference=tree_to_json(want)), "completion-differs-from-reference", True, None, None
    for p in _paths(t0):
        cur = m
        for k in p:
            if k not in cur:
                return False, dict(base, lost=p), "explicit-line-lost", True, None, None
            cur = cur[k]
    if [k for k in m if k in t0] != list(t0.keys()):
        return False, dict(base, merged=tree_to_json(m)), "explicit-order-changed", True, None, None
    m2 = merge_dicts(m, implicit.config(m, c["rules"]))
    if _plain(m2) != _plain(m) or list(m2.keys()) != list(m.keys()):
        return False, dict(base, once=tree_to_json(m), twice=tree_to_json(m2)), "not-idempotent", True, None, None
    withheld = len(_paths(ref_merge(odict(), c["raw"])[0])) - len(added)
    return True, None, None, bool(t0) and (withheld > 0 or len(added) > 0), m, added


def check_pair(c, t, u):
    from annet import api
    ok, detail, kind, nt, mt, added_t = check_tree(c, t)
    if not ok:
        return ok, detail, kind, nt
    ok, detail, kind, nt2, mu, added_u = check_tree(c, u)
    if not ok:
        return ok, detail, kind, nt2
    # defaults that completion added on BOTH sides (their parent exists in both): absent from the device text and
    # from the generator output, so nothing may be emitted for them
    both = set(added_t) & set(added_u)
    # a default whose literal opposite is written explicitly on one side is not "absent from both texts": removing or adding
    # that explicit line legitimately sends the default's command
    explicit = set(_paths(t)) | set(_paths(u))

    def _opp(row):
        return row[len(c["prefix"]) + 1:] if row.startswith(c["prefix"] + " ") else c["prefix"] + " " + row
    both = set(d for d in both if d[:-1] + (_opp(d[-1]),) not in explicit)
    try:
        _, patch = api._diff_and_patch(c["dev"], mt, mu, None, None, False)
        paths = [tuple(p) for p in c["fmt"].cmd_paths(patch)]
    except Exception as e:  # noqa
        # rows synthesised for the implicit patterns can be meaningless for vendor logic functions: not a C17 matter
        return True, None, "outside:patch-exception:%s" % type(e).__name__, False
    for p in paths:
        pos = p[-1][len(c["prefix"]) + 1:] if p[-1].startswith(c["prefix"] + " ") else None
        for d in both:
            if len(d) == len(p) and d[:-1] == p[:-1] and (p[-1] == d[-1] or pos == d[-1] or p[-1] == c["prefix"] + " " + d[-1]):
                return False, {"hw": str(c["hw"]), "t": tree_to_json(t), "u": tree_to_json(u), "paths": paths, "default": d}, \
                    "command-for-default-absent-from-both", True
    return True, None, None, nt or nt2


HWI = int(os.environ.get("VT_HW", "0"))
KMAX = 2 if rt.TIER == "quick" else 3
NU = 6 if rt.TIER == "quick" else 12


def subsets(n, kmax):
    import itertools
    out = [()]
    for k in range(1, kmax + 1):
        out.extend(itertools.combinations(range(n), k))
    return out


def build(atoms, idxs):
    t = odict()
    for i in idxs:
        parents, row = atoms[i]
        cur = t
        for p in parents:
            cur = cur.setdefault(p, odict())
        cur.setdefault(row, odict())
    return t


_C = hw_ctx(HWI)
_SUB = subsets(_C["n"], KMAX)
_USUB = [()] + [(i,) for i in range(0, _C["n"], max(1, _C["n"] // (NU - 1)))][:NU - 1]
NCASE = len(_SUB) * len(_USUB)
LO, HI = rt.shard_range(NCASE)


def h_implicit(case: int) -> bool:
    """
    pre: LO <= case < HI
    post: _ == True
    """
    cc = pick(case, HI, LO)
    with NoTracing():
        ti, ui = cc % len(_SUB), cc // len(_SUB)
        t = build(_C["atoms"], _SUB[ti])
        u = build(_C["atoms"], _USUB[ui])
        ok, detail, kind, nt = check_pair(_C, t, u)
        # the case carries the concrete trees: the z3-synthesised rows behind the atom indexes may differ between runs
        rt.record({"hw": HWI, "t": list(_SUB[ti]), "u": list(_USUB[ui]), "t_tree": tree_to_json(t), "u_tree": tree_to_json(u)},
                  ok, [HWI, ti, ui] if nt else None, detail=detail,
                  fingerprint="C17:%s:%s" % (HWS[HWI][0], kind))
    return ok


# ---------------------------------------------------------------- production composition: gen._old_new_per_device(add_implicit=True)
FLOW_HW = [("Huawei S5700", ()), ("Huawei NE40E", ()), ("Cisco Nexus 3432", ()), ("Arista DCS-7368", ())]
FLOW_DEV_TEXTS = ["", "sysname x\n", "stp mode mstp\n", "netconf\nsysname x\n"]
FLOW_GEN_ROWS = [[], ["sysname y"], ["stp mode mstp"], ["netconf", "sysname y"]]
FLOW_ACL = "stp ~\nnetconf\nsysname\naaa\n    ~ %global\nsnmp-server ~\nip ~\n"
NFLOW = len(FLOW_HW) * len(FLOW_DEV_TEXTS) * len(FLOW_GEN_ROWS) * 2


def check_flow(hi, di, gi, no_new=False):
    import logging
    logging.disable(logging.CRITICAL)
    from annet import gen as ann_gen, implicit, api
    from annet.generators import PartialGenerator
    from annet.annlib.netdev.views.hardware import HardwareView
    from annet.annlib.tabparser import parse_to_tree
    from annet.vendors import registry_connector
    model, tags = FLOW_HW[hi]
    hw = HardwareView(model, None)
    vendor = hw.vendor
    rows = FLOW_GEN_ROWS[gi]

    class _St:
        def flush_perf(self):
            return {}

    class G(PartialGenerator):
        def acl(self, device):
            return FLOW_ACL

        def run(self, device):
            for r in rows:
                yield r

    class Dev:
        def __init__(self):
            self.hw = hw
            self.hostname = "dev1"
            self.fqdn = "dev1.example"
            self.id = 1
            self.breed = vendor
            self.tags = list(tags)
            self.storage = _St()

        def is_pc(self):
            return False

        def __hash__(self):
            return 1

    class Args:
        no_acl = False
        acl_safe = False
        no_acl_exclusive = False
        generators_context = None
        profile = False
        fail_on_empty_config = False
        filter_acl = ""
        filter_ifaces = None
        filter_peers = None
        filter_policies = None
        required_packages_check = False
    dev = Dev()
    ctx = ann_gen.OldNewDeviceContext(
        config="-", args=Args(), downloaded_files={}, failed_files={}, running={}, failed_running={}, no_new=no_new,
        stdin={"config": FLOW_DEV_TEXTS[di], "filter_acl": ""}, add_annotations=False, add_implicit=True, do_files_download=False,
        gens=ann_gen.DeviceGenerators(partial={dev: [G(_St())]}, ref={dev: []}), fetched_packages={}, failed_packages={},
        device_count=1, do_print_perf=False)
    # no_new: `--clear` mode, the generators' side is empty
    base = {"hw": model, "device_text": FLOW_DEV_TEXTS[di], "generator_rows": rows, "clear_mode": no_new}
    try:
        res = ann_gen._old_new_per_device(ctx, dev, None)
        if res.err is not None:
            return True, None, "outside:err:%s" % type(res.err).__name__, False
        _, patch = api._diff_and_patch(dev, res.old, res.new, res.acl_rules, None, False)
        fmt = registry_connector.get().match(hw).make_formatter()
        paths = [tuple(p) for p in fmt.cmd_paths(patch)]
    except Exception as e:  # noqa
        return False, dict(base, error=repr(e)), "exception:%s" % type(e).__name__, True
    explicit = set(k for k in parse_to_tree(FLOW_DEV_TEXTS[di], fmt.split)) | (set() if no_new else set(rows))
    rules = implicit.compile_rules(dev)
    prefix = registry_connector.get().match(hw).reverse
    for p in paths:
        if len(p) != 1:
            continue
        row = p[0][len(prefix) + 1:] if p[0].startswith(prefix + " ") else p[0]
        if row in rules and rules[row]["type"] != "ignore" and row not in explicit and \
                not any(rules[row]["regexp"].match(e) for e in explicit):
            return False, dict(base, paths=paths, default=row, old=tree_to_json(res.old), new=tree_to_json(res.new)), \
                "command-for-default-absent-from-both", True
    return True, None, None, bool(paths)


# ---------------------------------------------------------------- --acl-safe mode: the safe view is completed from its own content
SAFE_HW = ["Cisco Catalyst 3750", "Cisco Catalyst 6500", "Cisco Nexus 3432"]
SAFE_BLOCKS = ["interface Loopback5", "interface GigabitEthernet1/0/5", "interface Ethernet1/5"]
NSAFE = len(SAFE_HW) * len(SAFE_BLOCKS) * 2


def check_safe_flow(hi, bi, with_dev_iface):
    """two generators: one creates a block and has NO safe ACL, the other has a safe ACL covering default lines of such
    blocks.  The safe view (what --acl-safe deploys) never mentions that block, so no command may address it."""
    import logging
    logging.disable(logging.CRITICAL)
    from annet import gen as ann_gen, api
    from annet.generators import PartialGenerator
    from annet.annlib.netdev.views.hardware import HardwareView
    from annet.vendors import registry_connector
    hw = HardwareView(SAFE_HW[hi], None)
    block = SAFE_BLOCKS[bi]
    iface = "interface Ethernet1/1" if "Nexus" in SAFE_HW[hi] else "interface GigabitEthernet0/1"
    dev_text = (iface + "\n description uplink\n mtu 9000\n") if with_dev_iface else ""

    class _St:
        def flush_perf(self):
            return {}

    class Addressing(PartialGenerator):
        def acl(self, device):
            return "interface *\n    ip address *\n"

        def run(self, device):
            with self.block(block):
                yield "ip address 10.0.0.5 255.255.255.255"

    class Mtu(PartialGenerator):
        def acl(self, device):
            return "interface *\n    description *\n    mtu *\n    no shutdown\n    shutdown\n"

        def acl_safe(self, device):
            return self.acl(device)

        def run(self, device):
            with self.block(iface):
                # (not an mtu line: `mtu 1500` is a literal default of these models and a second mtu line beside it is a
                # malformed configuration, which is not what this obligation is about)
                yield "description uplink2"

    class Dev:
        def __init__(self):
            self.hw = hw
            self.hostname = "dev1"
            self.fqdn = "dev1.example"
            self.id = 1
            self.breed = hw.vendor
            self.tags = []
            self.storage = _St()

        def is_pc(self):
            return False

        def __hash__(self):
            return 1

    class Args:
        no_acl = False
        acl_safe = True
        no_acl_exclusive = False
        generators_context = None
        profile = False
        fail_on_empty_config = False
        filter_acl = ""
        filter_ifaces = None
        filter_peers = None
        filter_policies = None
        required_packages_check = False
    dev = Dev()
    ctx = ann_gen.OldNewDeviceContext(
        config="-", args=Args(), downloaded_files={}, failed_files={}, running={}, failed_running={}, no_new=False,
        stdin={"config": dev_text, "filter_acl": ""}, add_annotations=False, add_implicit=True, do_files_download=False,
        gens=ann_gen.DeviceGenerators(partial={dev: [Addressing(_St()), Mtu(_St())]}, ref={dev: []}), fetched_packages={},
        failed_packages={}, device_count=1, do_print_perf=False)
    base = {"hw": SAFE_HW[hi], "block_of_the_unsafe_generator": block, "device_text": dev_text}
    try:
        res = ann_gen._old_new_per_device(ctx, dev, None)
        if res.err is not None:
            return True, None, "outside:err:%s" % type(res.err).__name__, False
        _, patch = api._diff_and_patch(dev, res.get_old(True), res.get_new(True), res.get_acl_rules(True), None, False)
        fmt = registry_connector.get().match(hw).make_formatter()
        paths = [tuple(p) for p in fmt.cmd_paths(patch)]
    except Exception as e:  # noqa
        return False, dict(base, error=repr(e)), "safe-flow:exception:%s" % type(e).__name__, True
    bad = [p for p in paths if p[0] == block]
    if bad:
        return False, dict(base, safe_patch=paths, safe_new=tree_to_json(res.get_new(True))), \
            "safe-flow:command-for-a-block-only-the-unsafe-generator-mentions", True
    return True, None, None, block in res.new


def h_safe_flow(case: int) -> bool:
    """
    pre: 0 <= case < NSAFE
    post: _ == True
    """
    c = pick(case, NSAFE)
    with NoTracing():
        hi, bi, wd = digits(c, [len(SAFE_HW), len(SAFE_BLOCKS), 2])
        ok, detail, kind, nt = check_safe_flow(hi, bi, bool(wd))
        rt.record({"safe_flow": [hi, bi, wd]}, ok, [hi, bi, wd] if nt else None, detail=detail, fingerprint="C17:%s" % kind)
    return ok


def h_flow(case: int) -> bool:
    """
    pre: 0 <= case < NFLOW
    post: _ == True
    """
    c = pick(case, NFLOW)
    with NoTracing():
        hi, di, gi, nn = digits(c, [len(FLOW_HW), len(FLOW_DEV_TEXTS), len(FLOW_GEN_ROWS), 2])
        ok, detail, kind, nt = check_flow(hi, di, gi, bool(nn))
        rt.record({"flow": [hi, di, gi, nn]}, ok, [hi, di, gi, nn] if nt else None, detail=detail, fingerprint="C17:gen-flow:%s" % kind)
    return ok


# ---------------------------------------------------------------- several devices in one process
# devices of ONE model whose implicit text differs (Nexus 9500: the 'spine1' tag), processed one after another the way a
# multi-host run does: every device is completed with its OWN defaults, whatever was processed before it
SEQ_DEVS = [("Cisco Nexus 9508", ("spine1",)), ("Cisco Nexus 9508", ()), ("Cisco Nexus 9316", ())]
SEQ_PERMS = [(0, 1, 2), (1, 0, 2), (2, 1, 0), (0, 2, 1)]
SEQ_TREES = [(), ("interface mgmt0",), ("interface Ethernet1/1",), ("interface Loopback0",), ("interface port-channel1",), ("router bgp 1",),
             ("interface Ethernet1/1", "no shutdown"), ("interface mgmt0", "shutdown")]
NSEQ = len(SEQ_PERMS) * len(SEQ_TREES)


def check_sequence(pi, ti):
    from annet import implicit
    from annet.annlib.netdev.views.hardware import HardwareView
    t = odict()
    cur = t
    for r_ in SEQ_TREES[ti]:
        cur = cur.setdefault(r_, odict())
    nt = False
    for di in SEQ_PERMS[pi]:
        model, tags = SEQ_DEVS[di]
        dev = _Dev(HardwareView(model, None), tags)
        c = {"hw": "%s tags=%s" % (model, list(tags)), "rules": implicit.compile_rules(dev), "raw": implicit._implicit_tree(dev)}
        ok, detail, kind, n, _m, _a = check_tree(c, copy.deepcopy(t))
        nt = nt or n
        if not ok:
            return False, dict(detail or {}, processed=[list(SEQ_DEVS[j]) for j in SEQ_PERMS[pi]], device=list(SEQ_DEVS[di])), \
                "sequence:" + kind, True
    return True, None, None, nt


def h_sequence(case: int) -> bool:
    """
    pre: 0 <= case < NSEQ
    post: _ == True
    """
    c = pick(case, NSEQ)
    with NoTracing():
        pi, ti = digits(c, [len(SEQ_PERMS), len(SEQ_TREES)])
        ok, detail, kind, nt = check_sequence(pi, ti)
        rt.record({"sequence": [pi, ti]}, ok, [pi, ti] if nt else None, detail=detail, fingerprint="C17:%s" % kind)
    return ok


def z_spaces():
    """report sizes and z3 synthesis cost per hardware (evidence only)"""
    out = {}
    q, s = 0, 0.0
    for i in range(len(HWS)):
        c = hw_ctx(i)
        out[HWS[i][0]] = c["n"]
        q += c["queries"]
        s += c["solver_s"]
        rt.record({"hw": HWS[i][0], "atoms": [list(a_[0]) + [a_[1]] for a_ in c["atoms"]]}, True, [i, c["n"]])
    return {"verdict": "confirmed", "queries": q, "solver_s": round(s, 3), "counters": {"spaces": len(out)}}


def h_twin(case: int) -> bool:
    """
    pre: 0 <= case < 50
    post: _ == True
    """
    # reachability twin: "implicit never adds a default line" must be refuted
    c = pick(case, 50)
    with NoTracing():
        from annet import implicit
        cx = hw_ctx(0)
        t = build(cx["atoms"], (c % cx["n"],))
        ok = not any(len(v) == 0 and k not in t for k, v in implicit.config(t, cx["rules"]).items())
        rt.record({"c": c}, ok, c)
    return ok


def plan(tier):
    q = tier == "quick"
    obs = []
    for i, (m, _) in enumerate(HWS):
        obs.append(dict(name="implicit[%s]" % m, func="h_implicit", shards=2 if q else 8, timeout=280 if q else 2400, env={"VT_HW": i}))
    obs.append(dict(name="gen.flow", func="h_flow", shards=2, timeout=200))
    obs.append(dict(name="devices.sequence", func="h_sequence", shards=1, timeout=200))
    obs.append(dict(name="gen.flow.acl-safe", func="h_safe_flow", shards=1, timeout=200))
    obs.append(dict(name="twin", func="h_twin", shards=1, timeout=100, expect="refuted"))
    return obs


def _from_json(j):
    return odict((row, _from_json(ch)) for row, ch in j)


def replay(obligation, case):
    if "safe_flow" in case:
        ok, detail, kind, _ = check_safe_flow(case["safe_flow"][0], case["safe_flow"][1], bool(case["safe_flow"][2]))
        return {"ok": ok, "detail": detail, "fingerprint": "C17:%s" % kind}
    if "sequence" in case:
        ok, detail, kind, _ = check_sequence(*case["sequence"])
        return {"ok": ok, "detail": detail, "fingerprint": "C17:%s" % kind}
    if "flow" in case:
        ok, detail, kind, _ = check_flow(*case["flow"])
        return {"ok": ok, "detail": detail, "fingerprint": "C17:gen-flow:%s" % kind}
    c = hw_ctx(case["hw"])
    if "t_tree" in case:
        t, u = _from_json(case["t_tree"]), _from_json(case["u_tree"])
    else:
        t = build(c["atoms"], case["t"])
        u = build(c["atoms"], case["u"])
    ok, detail, kind, _ = check_pair(c, t, u)
    return {"ok": ok, "detail": detail, "fingerprint": "C17:%s:%s" % (HWS[case["hw"]][0], kind)}
