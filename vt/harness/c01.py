"""C01 — patch convergence.  See DESIGN.md §C01.

step lemma  h_step_*   : the six common logic functions executed symbolically with SYMBOLIC row / key strings on a
                         one-slot reference device.
pipeline    h_family   : the production composition annet.api._diff_and_patch -> formatter.cmd_paths, for every
                         (old,new) pair (and chains) of a rule family's finite configuration space; the command paths are
                         executed on RefDevice and compared with the logic-adjusted target; second diff / second patch.
"""
import os
from collections import OrderedDict as odict

from crosshair.tracers import NoTracing
from crosshair.core import deep_realize

from vt import rt
from vt.common import pick, make_hw, make_rb, StubDevice, tree_to_json
from vt.space import PB, S, P, count, unrank
from vt.oracles import device as refdev

META = {
    "property_id": "C01",
    "level": "exploration",
    "technique": "CrossHair/z3: symbolic-string step lemma for the logic functions + solver-certified exhaustion of bounded "
                 "(old,new,chain) spaces through the real diff/patch pipeline against a reference device",
    "functions": [
        "annet/api/__init__.py:_diff_and_patch", "annet/api/__init__.py:patch_from_pre",
        "annet/annlib/patching.py:make_diff", "annet/annlib/patching.py:apply_diff_rb", "annet/annlib/patching.py:make_pre",
        "annet/annlib/patching.py:make_patch", "annet/annlib/patching.py:Orderer.get_order",
        "annet/annlib/patching.py:strip_unchanged", "annet/annlib/patching.py:mark_unchanged",
        "annet/annlib/rulebook/common.py:default", "annet/annlib/rulebook/common.py:ordered",
        "annet/annlib/rulebook/common.py:rewrite", "annet/annlib/rulebook/common.py:permanent",
        "annet/annlib/rulebook/common.py:undo_redo", "annet/annlib/rulebook/common.py:ignore_changes",
        "annet/annlib/rulebook/common.py:base_diff", "annet/annlib/rulebook/common.py:rewrite_diff",
        "annet/rulebook/patching.py:compile_patching_text", "annet/rulebook/patching.py:_make_reverse",
        "annet/annlib/tabparser.py:CommonFormatter.cmd_paths", "annet/annlib/tabparser.py:BlockExitFormatter.blocks_and_context",
    ],
    "rule": "pipeline: one CrossHair path per (vendor, old, new[, chain]) index of the family's configuration space (the index "
            "is the symbolic input, decoded by solver-decided bisection); non-trivial = the patch has at least one command; "
            "distinct by (family, vendor, old, new).  step lemma: one path per bucket-emptiness combination with symbolic strings.",
    "explanation": "",
    "assumptions": [
        "device model RefDevice (vt/oracles/device.py): one line per (rule,key); a header whose text changes starts a fresh "
        "object; blocks whose child rules are all %rewrite are replaced wholesale when a patch visit enters them",
        "logic-adjusted target: permanent lines are never deleted, ignore_changes lines keep the old text on a value change",
        "row texts are concrete (hash realisation); the configuration STRUCTURE is the symbolic input",
        "rule families F1a-F9 and F11 have pairwise disjoint sibling rules; F8 has rules whose first word merely starts with the negation word; F10 has two sibling block rules that both match one row",
    ],
    "outside": ["Juniper/Nokia/RouterOS/Ribbon flattened command syntaxes", "vendor %logic/%diff_logic functions",
                "add_comments=True", "more than the listed slots per family / chains longer than 3"],
    "bounds": {},
}

# ---------------------------------------------------------------- families
FAMILIES = {}


def fam(name, text, slots_quick, slots_thorough=None, chain=0):
    FAMILIES[name] = {"text": text, "quick": slots_quick, "thorough": slots_thorough or slots_quick, "chain": chain}


fam("F1a", """
a
x *
y ~
""", [S(["a", "a v1", "a v2"]), S(["x k1", "x k1 v1", "x k1 v2"]), S(["x k2", "x k2 v1"]), S(["y t1"])],
    [S(["a", "a v1", "a v2"]), S(["x k1", "x k1 v1", "x k1 v2"]), S(["x k2", "x k2 v1"]), S(["y t1"]), S(["y t2 w"])])

fam("F1b", """
p %logic=common.permanent
u * %logic=common.undo_redo
i * %logic=common.ignore_changes
a
""", [S(["p", "p v1"]), S(["u k1 v1", "u k1 v2"]), S(["u k2 v1"]), S(["i k1 v1", "i k1 v2"]), S(["a", "a v1"])])

fam("F2", """
b *
    c
    d *
pb * %logic=common.permanent
    c
e %parent
""", [S(["b k1", "b k1 v2"], [S(["c v1", "c v2"]), S(["d k1", "d k1 v1"])]), S(["pb k1"], [S(["c v1", "c v2"])]), S(["e"])],
    [S(["b k1", "b k1 v2"], [S(["c v1", "c v2"]), S(["d k1", "d k1 v1"])]), S(["b k2"], [S(["c v1"])]),
     S(["pb k1"], [S(["c v1", "c v2"])]), S(["e"])])

fam("F3", """
o *
    r ~ %ordered
t ~ %ordered
""", [S(["o k1"], [P(["r 1", "r 2", "r 3"])]), P(["t 1", "t 2"])])

fam("F4", """
rp *
    ~ %rewrite %global
""", [S(["rp k1"], [P(["s 1", "s 2"]), S(["if x"], [S(["s 4", "s 6"]), S(["s 5"])])]), S(["rp k2"], [P(["s 1"])])],
    [S(["rp k1"], [P(["s 1", "s 2", "s 3"]), S(["if x"], [S(["s 4"]), S(["s 5"])])]), S(["rp k2"], [P(["s 1"])])])

fam("F5", """
g * %global
b *
    c *
        d
""", [S(["g 1", "g 1 v"]), S(["b k1"], [S(["g 1", "g 1 v"]), S(["c k1"], [S(["g 1"]), S(["d", "d v"])])])])

fam("F6", """
b *
    c
    u * %logic=common.undo_redo
a
""", [S(["b k1"], [S(["c v1", "c v2"]), S(["u k1 v1"])]), S(["a"])],
    [S(["b k1"], [S(["c v1", "c v2"]), S(["u k1 v1", "u k1 v2"])]), S(["a"])], chain=3)

fam("F7", """
b *
    c
    d *
    n *
        c
a
""", [S(["b k1", "b k1 v2"], [S(["c v1", "c v2"]), S(["d k1"]), S(["n k1"], [S(["c v1"])])]), S(["a", "a v1"])])

fam("F8", """
node *
nonegotiate
notify ~
undox *
undock
b *
    noise *
    undone
""", [S(["node a"]), S(["nonegotiate"]), S(["undox k"]), S(["undock"]), S(["b k1"], [S(["noise n"]), S(["undone"])])],
    [S(["node a", "node a v"]), S(["nonegotiate"]), S(["notify g syslog"]), S(["undox k", "undox k v"]), S(["undock"]),
     S(["b k1"], [S(["noise n"]), S(["undone"])])])

# %ordered rows that are BLOCKS: moved and edited inside in the same step
fam("F9", """
pm *
    cl * %ordered
        bw
        ~
""", [S(["pm k1"], [PB(["cl 1", "cl 2", "cl 3"], [S(["bw 40", "bw 45"])], maxlen=2)])],
    [S(["pm k1"], [PB(["cl 1", "cl 2", "cl 3"], [S(["bw 40", "bw 45"]), S(["p"])], maxlen=2)])])

# two sibling block rules that both match one row: the sub-rules of both apply inside it
fam("F10", """
interface */(Vlan|Loopback)\\d+/
    ip *
interface *
    description ~
    mtu
""", [S(["interface Vlan10"], [S(["ip a1", "ip a2"]), S(["description x", "description y"]), S(["mtu 1", "mtu 2"])]),
      S(["interface Eth1"], [S(["description x"])])],
    [S(["interface Vlan10"], [S(["ip a1", "ip a2"]), S(["description x", "description y"]), S(["mtu 1", "mtu 2"])]),
     S(["interface Eth1"], [S(["description x"]), S(["mtu 1", "mtu 2"])])])

# %ordered combined with an explicit %logic: the order of the rows still has to reach the device
fam("F11", """
o *
    seq * %ordered %logic=common.undo_redo
t * %ordered %logic=common.permanent
""", [S(["o k1"], [P(["seq 1", "seq 2", "seq 3"])]), P(["t 1", "t 2"])])

# a line with ignore_changes logic inside an %ordered block row: when the block is dropped and re-created the line is re-entered
fam("F12", """
pm *
    cl * %ordered
        ql * %logic=common.ignore_changes
        ~
""", [S(["pm k1"], [PB(["cl 1", "cl 2", "cl 3"], [S(["ql 1 v1"]), S(["p"])], maxlen=2)])],
    # (the value of the ignore_changes line itself never changes here: a changed value is kept by design, see F1b)
    [S(["pm k1"], [PB(["cl 1", "cl 2", "cl 3"], [S(["ql 1 v1"]), S(["p"]), S(["ql 2 v1"])], maxlen=2)])])

BLOCK_VENDORS = ["huawei", "cisco", "nexus", "iosxr", "arista", "aruba", "b4com", "h3c", "optixtrans", "pc"]

FAM = os.environ.get("VT_FAM", "F1a")
VENDORS = os.environ.get("VT_VENDORS", "huawei").split(",")
_F = FAMILIES[FAM]
SLOTS = _F[rt.TIER if rt.TIER in ("quick", "thorough") else "quick"]
NCFG = count(SLOTS)
CHAIN = (_F["chain"] or 1) if rt.TIER != "quick" else min(_F["chain"] or 1, 2)
NCASE = len(VENDORS) * NCFG ** (1 + CHAIN)
LO, HI = rt.shard_range(NCASE)

_ctx = {}


def vendor_ctx(vendor, famname):
    key = (vendor, famname)
    if key not in _ctx:
        from annet.vendors import registry_connector
        hw = make_hw(vendor)
        v = registry_connector.get()[hw.vendor]
        text = FAMILIES[famname]["text"]
        _ctx[key] = {
            "hw": hw, "dev": StubDevice(hw), "rb": make_rb(text, hw.vendor), "fmt": v.make_formatter(),
            "prefix": v.reverse, "exit": v.exit, "rules": refdev.parse_rules(text),
        }
        _ctx[key]["root"] = refdev.Level.root(_ctx[key]["rules"])
    return _ctx[key]


def _excused(diff):
    from annet.annlib.types import Op
    for (op, row, children, match) in diff:
        name = getattr(match["attrs"].get("logic"), "__name__", "")
        if name in ("permanent", "ignore_changes"):
            continue
        if op == Op.AFFECTED and _excused(children):
            continue
        return False
    return True


def check_step(ctx, old, new):
    """one convergence step; returns (ok, kind, detail, device_after, ncmds)"""
    from annet import api
    try:
        diff, patch = api._diff_and_patch(ctx["dev"], old, new, None, None, False, rb=ctx["rb"])
        paths = [tuple(p) for p in ctx["fmt"].cmd_paths(patch)]
    except Exception as e:  # noqa
        return False, "exception:%s" % type(e).__name__, {"error": repr(e)}, None, 0
    dev = refdev.Device(old, ctx["rules"], ctx["prefix"], ctx["exit"])
    try:
        after = dev.run(paths)
    except refdev.DeviceError as e:
        return False, "device-rejects-command", {"error": str(e), "paths": paths}, None, len(paths)
    tgt = refdev.target(old, new, ctx["root"])
    if not refdev.same_config(after, tgt, ctx["root"]):
        return False, "apply-mismatch", {"paths": paths, "device_after": tree_to_json(after), "target": tree_to_json(tgt)}, after, len(paths)
    try:
        diff2, patch2 = api._diff_and_patch(ctx["dev"], after, new, None, None, False, rb=ctx["rb"])
        paths2 = [tuple(p) for p in ctx["fmt"].cmd_paths(patch2)]
    except Exception as e:  # noqa
        return False, "exception2:%s" % type(e).__name__, {"error": repr(e)}, after, len(paths)
    if paths2:
        return False, "second-patch-not-empty", {"paths": paths, "second": paths2, "device_after": tree_to_json(after)}, after, len(paths)
    if not _excused(diff2):
        return False, "second-diff-not-empty", {"paths": paths, "diff2": str(diff2)[:800]}, after, len(paths)
    return True, None, None, after, len(paths)


def check_case(famname, vendor, idxs, tier):
    slots = FAMILIES[famname][tier]
    ctx = vendor_ctx(vendor, famname)
    cfgs = [unrank(slots, i) for i in idxs]
    dev = cfgs[0]
    total = 0
    for step, new in enumerate(cfgs[1:]):
        ok, kind, detail, after, n = check_step(ctx, dev, new)
        total += n
        if not ok:
            detail = dict(detail or {})
            detail.update({"step": step, "old": tree_to_json(dev), "new": tree_to_json(new), "vendor": vendor})
            return False, kind, detail, total
        dev = after
    return True, None, None, total


def h_family(case: int) -> bool:
    """
    pre: LO <= case < HI
    post: _ == True
    """
    c = pick(case, HI, LO)
    with NoTracing():
        v = c % len(VENDORS)
        c //= len(VENDORS)
        idxs = []
        for _ in range(1 + CHAIN):
            idxs.append(c % NCFG)
            c //= NCFG
        vendor = VENDORS[v]
        ok, kind, detail, ncmds = check_case(FAM, vendor, idxs, rt.TIER)
        cs = {"family": FAM, "vendor": vendor, "idxs": idxs, "tier": rt.TIER}
        rt.record(cs, ok, [FAM, vendor, idxs] if ncmds else None, detail=detail, fingerprint="C01:%s:%s" % (FAM, kind))
    return ok


def h_family_twin(case: int) -> bool:
    """
    pre: LO <= case < HI
    post: _ == True
    """
    # reachability twin: "no patch ever contains a removal command" must be refuted
    c = pick(case, HI, LO)
    with NoTracing():
        from annet import api
        idxs = [(c // len(VENDORS)) % NCFG, (c // len(VENDORS) // NCFG) % NCFG]
        ctx = vendor_ctx(VENDORS[0], FAM)
        old, new = unrank(SLOTS, idxs[0]), unrank(SLOTS, idxs[1])
        _, patch = api._diff_and_patch(ctx["dev"], old, new, None, None, False, rb=ctx["rb"])
        paths = list(ctx["fmt"].cmd_paths(patch))
        ok = not any(p[-1].startswith(ctx["prefix"] + " ") for p in paths)
        rt.record({"idxs": idxs}, ok, idxs)
    return ok


# ---------------------------------------------------------------- step lemma (symbolic strings)
def _kids_pre(new_side):
    """children of a slot row in the grouped-diff shape make_pre produces: child rule `c` whose value changes (one key
    carrying REMOVED + ADDED) and, on the new side, an added child `d`"""
    from annet.annlib.types import Op

    def ops(**kw):
        d = {Op.ADDED: [], Op.REMOVED: [], Op.MOVED: [], Op.AFFECTED: [], Op.UNCHANGED: []}
        for k, v in kw.items():
            d[getattr(Op, k)] = [{"row": r, "children": odict()} for r in v]
        return d
    pre = odict()
    pre["c"] = {"attrs": {}, "items": odict([((), ops(REMOVED=["c 1"], ADDED=["c 2"]) if new_side else ops(REMOVED=["c 1"]))])}
    if new_side:
        pre["d *"] = {"attrs": {}, "items": odict([(("1",), ops(ADDED=["d 1"]))])}
    return pre


def _added_rows(pre):
    from annet.annlib.types import Op
    out = set()
    for content in (pre or {}).values():
        for ops in content["items"].values():
            for it in ops[Op.ADDED]:
                out.add(it["row"])
    return out


def _slot_device(logic_name, old_row, new_row, key0, rev_tpl, moved, old_children, new_children):
    """Run one common logic function on one (rule,key) slot and execute what it yields on a one-slot device.
    Returns (final_row, emitted) where final_row is None when the slot is empty."""
    from annet.annlib.rulebook import common
    from annet.annlib.types import Op
    logic = getattr(common, logic_name)
    diff = {Op.ADDED: [], Op.REMOVED: [], Op.MOVED: [], Op.AFFECTED: [], Op.UNCHANGED: []}
    if old_row is not None and new_row is not None and old_row == new_row:
        if moved:
            diff[Op.MOVED].append({"row": new_row, "children": new_children})
        elif old_children != new_children:
            diff[Op.AFFECTED].append({"row": new_row, "children": new_children})
        else:
            diff[Op.UNCHANGED].append({"row": new_row, "children": odict()})
    else:
        if old_row is not None:
            diff[Op.REMOVED].append({"row": old_row, "children": old_children})
        if new_row is not None:
            diff[Op.ADDED].append({"row": new_row, "children": new_children})
    rule = {"reverse": rev_tpl, "logic": logic}
    key = (key0,)
    slot = old_row
    emitted = []
    undo_cmd = "undo k " + key0
    must_send = _added_rows(new_children) if new_row is not None else set()
    for (direct, row, children) in logic(rule=rule, key=key, diff=diff, hw=None, rule_pre=None, root_pre=None):
        emitted.append((direct, row))
        if direct and new_row is not None and row == new_row and not must_send <= _added_rows(children):
            # the (re-)created row is handed on without some of the lines that have to be added below it
            return ("LOST-CHILD", emitted)
    # make_patch sorts a key's removal before its re-creation (checked by the pipeline obligations and by C08),
    # so the one-slot device executes removals first
    for (direct, row) in emitted:
        if direct is False:
            if row != undo_cmd:
                return ("BAD-UNDO", emitted)
            slot = None
    for (direct, row) in emitted:
        if direct:
            slot = row
    return (slot, emitted)


LOGIC = os.environ.get("VT_LOGIC", "default")
SLEN = 2 if rt.TIER == "quick" else 3


def h_step(has_old: bool, has_new: bool, same: bool, moved: bool, kids: bool, key0: str, v1: str, v2: str) -> bool:
    """
    pre: len(key0) <= SLEN and len(v1) <= SLEN and len(v2) <= SLEN and v1 != v2
    pre: "{" not in key0 and "}" not in key0
    post: _ == True
    """
    old_row = ("k " + key0 + " " + v1) if has_old else None
    new_row = (old_row if (same and has_old) else "k " + key0 + " " + v2) if has_new else None
    kids_old = _kids_pre(False) if kids else odict()
    kids_new = _kids_pre(True) if kids else odict()
    final, emitted = _slot_device(LOGIC, old_row, new_row, key0, "undo k {}", moved, kids_old, kids_new)
    # expectation
    if LOGIC == "permanent" and has_old and (not has_new or old_row != new_row):
        want = old_row
    elif LOGIC == "ignore_changes" and has_old and has_new and old_row != new_row:
        want = old_row
    elif LOGIC == "rewrite" and has_old and not has_new:
        want = old_row  # rewrite never removes by itself: the enclosing block is re-sent wholesale
    elif LOGIC == "rewrite" and has_old and has_new and old_row != new_row:
        want = old_row
    else:
        want = new_row
    ok = final == want
    cs = None
    if not ok:
        cs = deep_realize({"logic": LOGIC, "has_old": has_old, "has_new": has_new, "same": same, "moved": moved,
                           "kids": kids, "key0": key0, "v1": v1, "v2": v2})
    with NoTracing():
        rt.record(cs or {"logic": LOGIC, "path": rt.paths}, ok, [LOGIC, rt.paths] if (has_old or has_new) else None,
                  fingerprint="C01:step:%s" % LOGIC)
    return ok


def replay_step(case):
    final, emitted = None, None
    has_old, has_new, same = case["has_old"], case["has_new"], case["same"]
    key0, v1, v2 = case["key0"], case["v1"], case["v2"]
    logic = case["logic"]
    old_row = ("k " + key0 + " " + v1) if has_old else None
    new_row = (old_row if (same and has_old) else "k " + key0 + " " + v2) if has_new else None
    kids_old = _kids_pre(False) if case["kids"] else odict()
    kids_new = _kids_pre(True) if case["kids"] else odict()
    final, emitted = _slot_device(logic, old_row, new_row, key0, "undo k {}", case["moved"], kids_old, kids_new)
    if logic == "permanent" and has_old and (not has_new or old_row != new_row):
        want = old_row
    elif logic in ("ignore_changes", "rewrite") and has_old and has_new and old_row != new_row:
        want = old_row
    elif logic == "rewrite" and has_old and not has_new:
        want = old_row
    else:
        want = new_row
    ok = final == want
    return {"ok": ok, "detail": {"final": final, "want": want, "emitted": emitted}, "fingerprint": "C01:step:%s" % logic}


# ----------------------------------------------------------------
def plan(tier):
    q = tier == "quick"
    obs = []
    for lg in ["default", "ordered", "rewrite", "permanent", "undo_redo", "ignore_changes"]:
        obs.append(dict(name="step.%s" % lg, func="h_step", shards=1, timeout=120 if q else 400, env={"VT_LOGIC": lg},
                        bound="symbolic key/value strings len<=%d" % (2 if q else 3)))
    fams = [("F1a", "huawei", 12), ("F1b", "cisco", 10), ("F2", "huawei", 8), ("F3", "huawei,cisco", 6),
            ("F4", "huawei,iosxr", 4), ("F5", "huawei,arista", 4), ("F6", "huawei", 6),
            ("F7", "huawei,cisco,pc" if q else ",".join(BLOCK_VENDORS), 12), ("F8", "huawei,cisco", 6),
            ("F9", "cisco,huawei", 6), ("F10", "cisco,huawei", 6), ("F11", "cisco,huawei", 4), ("F12", "cisco,huawei", 4)]
    for (f, vendors, shards) in fams:
        if not q:
            shards *= 3
        obs.append(dict(name="pipe.%s" % f, func="h_family", shards=shards, timeout=280 if q else 2400,
                        env={"VT_FAM": f, "VT_VENDORS": vendors}, bound="family %s, vendors %s" % (f, vendors)))
    obs.append(dict(name="pipe.twin", func="h_family_twin", shards=1, timeout=120, expect="refuted",
                    env={"VT_FAM": "F1a", "VT_VENDORS": "huawei"}))
    return obs


def replay(obligation, case):
    if obligation.startswith("step."):
        return replay_step(case)
    ok, kind, detail, _ = check_case(case["family"], case["vendor"], case["idxs"], case.get("tier", "quick"))
    return {"ok": ok, "detail": detail, "fingerprint": "C01:%s:%s" % (case["family"], kind)}
