"""C02 — a patch never touches configuration outside the generators' ACL.  See DESIGN.md §C02."""
import copy
import os
from collections import OrderedDict as odict

from crosshair.tracers import NoTracing

from vt import rt
from vt.common import pick, digits, make_hw, make_rb, StubDevice, tree_to_json, tree
from vt.space import S, count, unrank
from vt.oracles import acl as refacl
from vt.oracles import device as refdev

META = {
    "property_id": "C02",
    "level": "exploration",
    "technique": "CrossHair/z3-certified exhaustion of bounded (ACL, device config, generator output) spaces through the real "
                 "_diff_and_patch with ACL; command paths checked against RefAcl and executed on RefDevice",
    "functions": [
        "annet/api/__init__.py:_diff_and_patch", "annet/annlib/patching.py:apply_acl", "annet/annlib/patching.py:apply_acl_diff",
        "annet/annlib/patching.py:match_row_to_acl", "annet/annlib/patching.py:_find_acl_matches",
        "annet/annlib/patching.py:_select_match", "annet/annlib/patching.py:make_diff", "annet/annlib/patching.py:make_patch",
        "annet/annlib/rbparser/acl.py:compile_acl_text", "annet/annlib/rbparser/acl.py:_merge_toplevel",
        "annet/generators/result.py:_combine_acl_text", "annet/annlib/tabparser.py:BlockExitFormatter.cmd_paths",
    ],
    "rule": "one path per (ACL, old, new) index; non-trivial = patch has >=1 command and old holds >=1 uncovered row; distinct by index",
    "explanation": "",
    "assumptions": ["the candidate generator output goes into _diff_and_patch unfiltered (the function applies the ACL to both sides); its RefAcl filter is what must be on the device afterwards",
                    "rulebook uses default logic only (commands are the row or its negation)", "vendors huawei and cisco",
                    "competing ACL matches are ranked by RefAcl as in C06 (%prio, specificity, text order); the governing rule decides cant_delete"],
    "outside": ["filter-ACL", "vendor logic emitting other commands", "annotations"],
    "bounds": {},
}

RB_TEXT = """
a
b *
    c
    d *
    e
    z
    n *
        c
        z
interface-range *
    mtu
    z
interface *
    mtu
    d *
    z
    description
g ~ %global
z
    c
"""

ACL_BLOCKS = [
    "a{cd_a}\n",
    "b *{cd_b}\n    c\n    d *\n",
    "interface *\n    mtu\n    d *\n",
    "g ~ %global\n",
]
ACL_B2 = "b *\n    e\n"

# (mask over ACL_BLOCKS, cd_a, cd_b, second generator present)
ACLS_Q = [(0b0111, 0, 0, 0), (0b0011, 1, 0, 1), (0b0110, 0, 1, 0), (0b1111, 0, 0, 1), (0b0101, 1, 0, 0), (0b1010, 0, 1, 1)]
ACLS_T = ACLS_Q + [(0b0010, 0, 0, 1), (0b0100, 0, 0, 0), (0b0001, 0, 0, 0), (0b1000, 0, 0, 0), (0b0111, 1, 1, 1), (0b1011, 0, 0, 0), (0b0000, 0, 0, 1), (0b1110, 1, 1, 0),
                   (0b1111, 1, 1, 1), (0b0011, 0, 0, 0)]
ACLS = ACLS_Q if rt.TIER == "quick" else ACLS_T
# special ACL texts: (1) a rule that merely STARTS with "interface" (built-in cant_delete default), (2) a row matched by two
# local rules one of which brings a %global child rule, next to a sibling matched by only one of them
_B1 = S(["b 1"], [S(["n 1"], [S(["c"]), S(["z"])])])
_B2 = S(["b 2"], [S(["n 1"], [S(["c"]), S(["z"])])])
_NB1 = S(["b 1"], [S(["n 1"], [S(["c"])])])
_NB2 = S(["b 2"], [S(["n 1"], [S(["c"])])])
SPECIALS = [
    # a rule that merely STARTS with "interface": built-in cant_delete default
    ("interface-range *\n    mtu\na\n", [S(["interface-range R"], [S(["mtu 9000"]), S(["z"])]), S(["a"])], [S(["a", "a x"])]),
    # a row matched by two local rules, one of which brings a %global child, beside a sibling matched by one
    ("b *\n    n * %prio=1\n        c\nb 1\n    ~ %global\n", [_B1, _B2], [_NB1, _NB2]),
    ("interfaces-x\na %cant_delete=1\nb *\n    n *\n        c\n", [S(["a"]), _B1, _B2], [S(["a", "a x"]), _NB1, _NB2]),
    # the explicit negated form of a cant_delete row beside a catch-all sibling rule
    ("interface *\n    description %cant_delete=1 %prio=1\n    ~\n",
     [S(["interface X"], [S(["description a"]), S(["mtu 9000"])])],
     [S(["interface X"], [S(["undo description", "description b"]), S(["mtu 9000", "mtu 1500"])])],
     # a patching rulebook with a catch-all line rule inside the block: the explicit negated form is a line to send
     "interface *\n    description\n    mtu\n    ~\n"),
    # a deletable block (explicit %cant_delete=0) with a protected child; the rulebook keeps the block itself (permanent),
    # so a "removed" block survives and its protected child must survive with it
    ("interface * %cant_delete=0\n    description %cant_delete=1\n    mtu\n",
     [S(["interface X"], [S(["description a"]), S(["mtu 9000"])]), S(["interface Y"], [S(["description b"])])],
     [S(["interface X"], [S(["description a", "description c"]), S(["mtu 9000", "mtu 1500"])])],
     "interface * %logic=common.permanent\n    description\n    mtu\n"),
    # the explicit negated form of a protected row WITHOUT any catch-all rule beside it: the ACL refuses it as generator output
    ("interface *\n    description %cant_delete=1\n    mtu\n",
     [S(["interface X"], [S(["description a"]), S(["mtu 9000"])])],
     [S(["interface X"], [S(["undo description", "description b"]), S(["mtu 9000", "mtu 1500"])])],
     "interface *\n    description\n    mtu\n    ~\n"),
    # a more specific %global rule governs the block: the children rules of the less specific local rule do not apply below it
    ("interface *\n    mtu\n    description\ninterface */X\\d*/ %global\n",
     [S(["interface X"], [S(["mtu 9000"]), S(["description a"])]), S(["interface Y1"], [S(["mtu 9000"])])],
     [S(["interface X"], [S(["mtu 9000", "mtu 1500"]), S(["description a", "description b"])]), S(["interface Y1"], [S(["mtu 9000", "mtu 1500"])])]),
    # two differently written rules of equal rank match the protected row: the one written first governs it
    ("interface *\n    description %cant_delete=1\ninterface *\n    description *\n    mtu\n",
     [S(["interface X"], [S(["description a"]), S(["mtu 9000"])])],
     [S(["interface X"], [S(["description a", "description b"]), S(["mtu 9000", "mtu 1500"])])]),
]
SPECIAL_ACLS = [x[0] for x in SPECIALS]

OLD_Q = [S(["a"]), S(["interface X"], [S(["mtu 9000"]), S(["z"])]), S(["b 1"], [S(["c"]), S(["d 1"]), S(["z"]), S(["e"])])]
NEW_Q = [S(["a", "a x"]), S(["interface X"], [S(["mtu 9000", "mtu 1500"])]), S(["b 1"], [S(["c"]), S(["d 1"]), S(["e"])])]
# thorough: all 16 ACL texts x both vendors; the trees grow by the row of the %global rule on the old side only (a product
# with a larger new side as well is 10.6M cases, about two hours)
OLD_T = OLD_Q + [S(["g 1"])]
NEW_T = NEW_Q
OLD = OLD_Q if rt.TIER == "quick" else OLD_T
NEW = NEW_Q if rt.TIER == "quick" else NEW_T
VENDORS = ["huawei", "cisco"]

_ctx = {}


class _G:
    def __init__(self, name, acl):
        self.name = name
        self.acl = acl


def ctx(vendor, acl, rb_text=None):
    rb_text = rb_text or RB_TEXT
    key = (vendor, acl, rb_text)
    if key not in _ctx:
        from annet.vendors import registry_connector
        from annet.annlib.rbparser.acl import compile_acl_text
        from annet.generators.result import _combine_acl_text
        hw = make_hw(vendor)
        v = registry_connector.get()[hw.vendor]
        if isinstance(acl, str):
            mask, cda, cdb, second = 0, 0, 0, 0
        else:
            mask, cda, cdb, second = acl
        t1 = acl if isinstance(acl, str) else "".join(b.format(cd_a=" %cant_delete=1" if cda else "", cd_b=" %cant_delete=1" if cdb else "")
                     for i, b in enumerate(ACL_BLOCKS) if mask >> i & 1)
        gens = {"ga": _G("ga", t1)}
        texts = [("ga", t1)]
        if second:
            gens["gb"] = _G("gb", ACL_B2)
            texts.append(("gb", ACL_B2))
        text = _combine_acl_text(gens, lambda g: g.acl)
        _ctx[key] = {
            "hw": hw, "dev": StubDevice(hw), "rb": make_rb(rb_text, hw.vendor), "fmt": v.make_formatter(),
            "prefix": v.reverse, "exit": v.exit, "rules": refdev.parse_rules(rb_text),
            "acl": compile_acl_text(text, hw.vendor), "acl_text": text,
            "ref": refacl.ALevel.root(refacl.parse_acl(texts, v.reverse)),
        }
    return _ctx[key]


def _to_tree(lst):
    t = odict()
    for row, sub in lst:
        t[row] = _to_tree(sub)
    return t


def _get(t, path):
    for p in path:
        if t is None or p not in t:
            return None
        t = t[p]
    return t


def _uncovered_rows(t, level, path=()):
    """paths of rows of t that no ACL rule covers (walking only through covered ancestors), and cant_delete rows"""
    unc, cd = [], []
    for row, sub in t.items():
        kind, rules, child = level.classify(row)
        if kind is None:
            unc.append(path + (row,))
            continue
        # the rule that governs the row is the first of the competing matches in the ACL language's ranking (RefAcl.classify:
        # %prio, specificity, text order); the row is a cant_delete row when that rule forbids deletion
        if kind in ("local", "global") and all(rules[0].cant_delete):
            cd.append(path + (row,))
        u, c = _uncovered_rows(sub or {}, child, path + (row,))
        unc.extend(u)
        cd.extend(c)
    return unc, cd


def check_case(vendor, acl, old, cand, rb_text=None):
    from annet import api
    c = ctx(vendor, acl, rb_text)
    try:
        new_l, _ = refacl.ref_filter(cand, c["ref"])
    except refacl.Ambiguous as e:
        return False, {"error": str(e)}, "HARNESS:ambiguous-grammar", False
    new = _to_tree(new_l)
    base = {"vendor": vendor, "acl": c["acl_text"], "old": tree_to_json(old), "new": tree_to_json(new)}
    try:
        # the generator output goes in UNFILTERED: _diff_and_patch applies the ACL to both sides itself (the reference-filtered
        # `new` is what must be on the device afterwards)
        diff, patch = api._diff_and_patch(c["dev"], copy.deepcopy(old), copy.deepcopy(cand), c["acl"], None, False, rb=c["rb"])
        paths = [tuple(p) for p in c["fmt"].cmd_paths(patch)]
    except Exception as e:  # noqa
        return False, dict(base, error=repr(e)), "exception:%s" % type(e).__name__, True
    # (a) every command path is covered level by level
    for p in paths:
        if not refacl.covered_path(c["ref"], p, c["prefix"], exit_words=(c["exit"],)):
            return False, dict(base, paths=paths, offending=p), "command-outside-acl", True
    dev = refdev.Device(old, c["rules"], c["prefix"], c["exit"])
    try:
        after = dev.run(paths)
    except refdev.DeviceError as e:
        return False, dict(base, paths=paths, error=str(e)), "device-rejects-command", True
    unc, cd = _uncovered_rows(old, c["ref"])
    # (b) uncovered rows untouched while their ancestors survive
    for p in unc:
        if _get(after, p[:-1]) is None:
            continue  # an ancestor block was removed (covered and deletable)
        sub = _get(after, p)
        if sub is None or refdev._plain(sub) != refdev._plain(_get(old, p)):
            return False, dict(base, paths=paths, row=p, after=tree_to_json(after)), "uncovered-row-changed", True
    # (c) cant_delete rows never disappear
    for p in cd:
        parent = _get(after, p[:-1])
        if parent is not None and _get(after, p) is None and not _slot_present(c, parent, p):
            return False, dict(base, paths=paths, row=p, after=tree_to_json(after)), "cant_delete-row-removed", True
    # (d) every generated row is on the device afterwards
    for p in _all_paths(new):
        if _get(after, p) is None:
            return False, dict(base, paths=paths, row=p, after=tree_to_json(after)), "generated-row-missing", True
    return True, None, None, bool(paths) and bool(unc)


def _slot_present(c, parent, p):
    """the (rule, key) line of cant_delete row p still exists under `parent` (its value may have been replaced)"""
    level = refdev.Level.root(c["rules"])
    for b in p[:-1]:
        _, _, level = level.match(b)
        if level is None:
            return False
    r0, k0, _ = level.match(p[-1])
    for row in parent:
        r, k, _ = level.match(row)
        if r is not None and r is r0 and k == k0:
            return True
    return False


def _all_paths(t, prefix=()):
    out = []
    for k, v in t.items():
        out.append(prefix + (k,))
        out.extend(_all_paths(v, prefix + (k,)))
    return out


NOLD, NNEW = count(OLD), count(NEW)
RAD = [1 if rt.TIER == "quick" else len(VENDORS), len(ACLS), NOLD, NNEW]
NCASE = RAD[0] * RAD[1] * RAD[2] * RAD[3]
LO, HI = rt.shard_range(NCASE)


def h_acl_patch(case: int) -> bool:
    """
    pre: LO <= case < HI
    post: _ == True
    """
    c = pick(case, HI, LO)
    with NoTracing():
        vi, ai, oi, ni = digits(c, RAD)
        if RAD[0] == 1:
            vi = ai % 2
        ok, detail, kind, nt = check_case(VENDORS[vi], ACLS[ai], unrank(OLD, oi), unrank(NEW, ni))
        rt.record({"vendor": VENDORS[vi], "acl": list(ACLS[ai]), "old": oi, "new": ni, "tier": rt.TIER}, ok,
                  [vi, ai, oi, ni] if nt else None, detail=detail, fingerprint="C02:%s" % kind)
    return ok


SP_CASES = []
for _si, (_acl, _o, _n) in enumerate(x[:3] for x in SPECIALS):
    for _vi in range(1 if rt.TIER == "quick" else len(VENDORS)):
        for _oi in range(count(_o)):
            for _ni in range(count(_n)):
                SP_CASES.append((_vi, _si, _oi, _ni))
NSPEC = len(SP_CASES)
SLO, SHI = rt.shard_range(NSPEC)


def h_special(case: int) -> bool:
    """
    pre: SLO <= case < SHI
    post: _ == True
    """
    c = pick(case, SHI, SLO)
    with NoTracing():
        vi, si, oi, ni = SP_CASES[c]
        acl, osl, nsl = SPECIALS[si][:3]
        ok, detail, kind, nt = check_case(VENDORS[vi], acl, unrank(osl, oi), unrank(nsl, ni), SPECIALS[si][3] if len(SPECIALS[si]) > 3 else None)
        rt.record({"vendor": VENDORS[vi], "special": si, "old": oi, "new": ni}, ok, [vi, si, oi, ni] if nt else None, detail=detail,
                  fingerprint="C02:%s" % kind)
    return ok


def h_twin(case: int) -> bool:
    """
    pre: 0 <= case < NOLD
    post: _ == True
    """
    # reachability twin: "the ACL never protects anything from deletion" must be refuted: some old row survives an empty new
    c = pick(case, NOLD)
    with NoTracing():
        from annet import api
        cx = ctx("huawei", ACLS[0])
        old = unrank(OLD, c)
        _, patch = api._diff_and_patch(cx["dev"], old, odict(), cx["acl"], None, False, rb=cx["rb"])
        after = refdev.Device(old, cx["rules"], cx["prefix"], cx["exit"]).run([tuple(p) for p in cx["fmt"].cmd_paths(patch)])
        ok = not after
        rt.record({"old": c}, ok, c)
    return ok


def plan(tier):
    q = tier == "quick"
    return [
        dict(name="acl_patch", func="h_acl_patch", shards=16 if q else 64, timeout=280 if q else 3000),
        dict(name="acl_patch.special", func="h_special", shards=8, timeout=280 if q else 900),
        dict(name="twin", func="h_twin", shards=1, timeout=60, expect="refuted"),
    ]


def replay(obligation, case):
    if "special" in case:
        sp = SPECIALS[case["special"]]
        acl, osl, nsl = sp[:3]
        ok, detail, kind, _ = check_case(case["vendor"], acl, unrank(osl, case["old"]), unrank(nsl, case["new"]), sp[3] if len(sp) > 3 else None)
        return {"ok": ok, "detail": detail, "fingerprint": "C02:%s" % kind}
    t = case.get("tier", "quick")
    old_s, new_s = (OLD_Q, NEW_Q) if t == "quick" else (OLD_T, NEW_T)
    ok, detail, kind, _ = check_case(case["vendor"], tuple(case["acl"]), unrank(old_s, case["old"]), unrank(new_s, case["new"]))
    return {"ok": ok, "detail": detail, "fingerprint": "C02:%s" % kind}
