"""C06 — ACL filtering selects exactly the covered lines and nothing else.  See DESIGN.md §C06."""
import os
from collections import OrderedDict as odict

from crosshair.tracers import NoTracing

from vt import rt
from vt.common import pick, digits, tree_to_json
from vt.space import S, count, unrank
from vt.oracles import acl as refacl

META = {
    "property_id": "C06",
    "level": "exploration",
    "technique": "CrossHair/z3-certified exhaustion of bounded (ACL text, ACL text, tree) spaces through the real compile_acl_text/"
                 "apply_acl against RefAcl; z3 regex disjointness of the compiled rule languages as side obligation",
    "functions": [
        "annet/annlib/patching.py:apply_acl", "annet/annlib/patching.py:match_row_to_acl",
        "annet/annlib/patching.py:_find_acl_matches", "annet/annlib/patching.py:_select_match",
        "annet/annlib/rbparser/acl.py:compile_acl_text", "annet/annlib/rbparser/acl.py:_compile_acl",
        "annet/annlib/rbparser/acl.py:_merge_toplevel", "annet/annlib/filter_acl.py:filter_config",
        "annet/generators/result.py:_combine_acl_text",
    ],
    "rule": "one path per (ACL A, ACL B, tree) index; non-trivial = the filter dropped at least one row and kept at least one; "
            "distinct by (A, B, tree)",
    "explanation": "",
    "assumptions": ["ACL grammar: 6 top rule blocks (literal, keyed block with children, interface block, top-level %global, "
                    "same block from a second generator, block with a '~ %global' child) x cant_delete flags; in that base grammar the "
                    "rule languages of local vs global vs reverse forms are pairwise disjoint (decided by z3 on the compiled regexes); "
                    "the prio / overlap / tie blocks have competing matches, which RefAcl ranks by %prio, shared-symbol specificity of "
                    "the pattern text and collection order (direct before negated, local before %global, text order)",
                    "vendor huawei (negation word 'undo')"],
    "outside": ["filter-ACL ignore rules ('!')", "Juniper inactive: normalisation",
                "monotonicity under a high-%prio %global rule that shadows a local rule with children (the law does not hold there)"],
    "bounds": {},
}

VENDOR = "huawei"
PREFIX = "undo"

BLOCKS = [
    "a{cd_a}\n",
    "b *{cd_b}\n    c\n    d *\n",
    "interface *\n    mtu\n    d *\n",
    "g ~ %global\n",
    "b *\n    e\n",
    "s *\n    ~ %global\n",
]
# overlapping rules whose precedence is fixed by %prio (no specificity heuristic involved):
# a specific local rule, a %global rule in between, and a broad local rule; children of BOTH local rules apply
PRIO_BLOCK = "p X %prio=2\n    m\np.* %global %prio=1\np * %prio=0\n    dd ~\n"



def acl_text(mask, cd_a=False, cd_b=False):
    parts = []
    if mask >> 6 & 1:
        parts.append(PRIO_BLOCK)
    for i, b in enumerate(BLOCKS):
        if mask >> i & 1:
            parts.append(b.format(cd_a=" %cant_delete=1" if cd_a else "", cd_b=" %cant_delete=1" if cd_b else ""))
    return "".join(parts)


NACL = 64 * 4


def acl_of(i):
    return acl_text(i % 64, bool((i // 64) & 1), bool((i // 128) & 1))


TREE_SLOTS = [
    S(["a", "undo a"]),
    S(["g 1"]),
    S(["z"], [S(["c"])]),
    S(["s 1"], [S(["p"], [S(["q"])])]),
    S(["interface X"], [S(["mtu 9000"]), S(["z"])]),
    S(["b 1"], [S(["c", "e"]), S(["d 1"]), S(["z"]), S(["g 5"])]),
]
TREE_SLOTS_T = TREE_SLOTS + [S(["undo b 1"]), S(["b 2"], [S(["undo c"]), S(["e"], [S(["g 7"])])])]
SLOTS = TREE_SLOTS if rt.TIER == "quick" else TREE_SLOTS_T
NTREE = count(SLOTS)

WIDE_TREES = None


def full_tree():
    t = odict()
    for s in TREE_SLOTS_T:
        for row in s.rows:
            t[row] = _full(s.children)
    return t


def _full(children):
    t = odict()
    for s in children:
        for row in s.rows:
            t[row] = _full(s.children)
    return t


class _G:
    def __init__(self, name, acl):
        self.name = name
        self.acl = acl


def compile_pair(ta, tb):
    """A, B and A+B compiled by annet; A+B as RunGeneratorResult.acl_text would build it"""
    from annet.annlib.rbparser.acl import compile_acl_text
    from annet.generators.result import _combine_acl_text
    A = compile_acl_text(ta, VENDOR)
    B = compile_acl_text(tb, VENDOR)
    merged_text = _combine_acl_text({"ga": _G("ga", ta), "gb": _G("gb", tb)}, lambda g: g.acl)
    AB = compile_acl_text(merged_text, VENDOR)
    return A, B, AB


def _plain_list(t):
    return [[k, _plain_list(v)] for k, v in (t or {}).items()]


def _subtree_of(small, big):
    """order-preserving subtree (rows of small appear in big in the same relative order, recursively)"""
    bi = 0
    for row, sub in small:
        while bi < len(big) and big[bi][0] != row:
            bi += 1
        if bi == len(big):
            return False
        if not _subtree_of(sub, big[bi][1]):
            return False
        bi += 1
    return True


def _union_sub(x, y, big):
    for part in (x, y):
        if not _subtree_of(part, big):
            return False
    return True


def check_filter(ta, tb, tree):
    from annet.annlib import patching
    A, B, AB = compile_pair(ta, tb)
    base = {"acl_a": ta, "acl_b": tb, "tree": tree_to_json(tree)}
    inp = _plain_list(tree)
    results = {}
    for name, rules, texts in (("A", A, [("ga", ta)]), ("B", B, [("gb", tb)]), ("AB", AB, [("ga", ta), ("gb", tb)])):
        level = refacl.ALevel.root(refacl.parse_acl(texts, PREFIX))
        try:
            want, uncovered = refacl.ref_filter(tree, level)
        except refacl.Ambiguous as e:
            return False, dict(base, error=str(e)), "HARNESS:ambiguous-grammar", False
        try:
            got = _plain_list(patching.apply_acl(tree, rules))
        except Exception as e:  # noqa
            return False, dict(base, which=name, error=repr(e)), "exception:%s" % type(e).__name__, True
        if got != want:
            return False, dict(base, which=name, annet=got, reference=want), "filter-differs-from-reference:%s" % name, True
        if not _subtree_of(got, inp):
            return False, dict(base, which=name, annet=got), "not-an-order-preserving-subtree", True
        # idempotence
        again = _plain_list(patching.apply_acl(patching.apply_acl(tree, rules), rules))
        if again != got:
            return False, dict(base, which=name, once=got, twice=again), "not-idempotent", True
        # library entry point: filter_config on the rendered text gives the same lines
        from annet.annlib import filter_acl
        from annet.annlib.tabparser import HuaweiFormatter, parse_to_tree
        fmt_ = HuaweiFormatter()
        try:
            ftext = filter_acl.filter_config(rules, fmt_, fmt_.join(tree))
            fgot = _plain_list(parse_to_tree(ftext, fmt_.split))
        except Exception as e:  # noqa
            return False, dict(base, which=name, error=repr(e)), "exception:%s" % type(e).__name__, True
        if fgot != got:
            return False, dict(base, which=name, filter_config=fgot, apply_acl=got), "filter_config-differs-from-apply_acl", True
        # strict mode
        try:
            patching.apply_acl(tree, rules, fatal_acl=True)
            raised = None
        except patching.AclError as e:
            raised = str(e)
        if (raised is not None) != bool(uncovered):
            return False, dict(base, which=name, raised=raised, uncovered=uncovered), "fatal-mode-iff-uncovered", True
        if raised is not None and raised != " / ".join(uncovered[0]):
            return False, dict(base, which=name, raised=raised, first_uncovered=uncovered[0]), "fatal-mode-names-wrong-row", True
        results[name] = got
    if not _union_sub(results["A"], results["B"], results["AB"]):
        return False, dict(base, A=results["A"], B=results["B"], AB=results["AB"]), "merged-acl-passes-less", True
    dropped = len(str(results["AB"])) < len(str(inp))
    return True, None, None, bool(results["AB"]) and dropped


# ---------------------------------------------------------------- deep: few ACL pairs x all trees
DEEP_PAIRS = [(0b000011, 0b010000), (0b000111, 0b001000), (0b101010, 0b010101), (0b111111, 0b000000),
              (0b000010 + 128, 0b010000), (0b001001 + 64, 0b100110), (0b110010, 0b000110 + 128), (0b100100, 0b011011 + 192)]
if rt.TIER == "quick":
    DEEP_PAIRS = DEEP_PAIRS[:6]
NDEEP = len(DEEP_PAIRS) * NTREE
DLO, DHI = rt.shard_range(NDEEP)


def h_deep(case: int) -> bool:
    """
    pre: DLO <= case < DHI
    post: _ == True
    """
    c = pick(case, DHI, DLO)
    with NoTracing():
        pi, ti = c % len(DEEP_PAIRS), c // len(DEEP_PAIRS)
        a, b = DEEP_PAIRS[pi]
        ok, detail, kind, nt = check_filter(acl_of(a), acl_of(b), unrank(SLOTS, ti))
        rt.record({"a": a, "b": b, "tree_idx": ti, "tier": rt.TIER}, ok, [a, b, ti] if nt else None, detail=detail,
                  fingerprint="C06:%s" % kind)
    return ok


# ---------------------------------------------------------------- wide: all ACL pairs (A, B) x the full tree and 3 partial trees
NWIDE = NACL * 16 * 4
WLO, WHI = rt.shard_range(NWIDE)
WB = [0b000000, 0b010000, 0b001000, 0b100000, 0b000011, 0b010010 + 128, 0b000101, 0b111111, 0b001010 + 64, 0b100001,
      0b010001 + 64, 0b000110, 0b011000, 0b110000, 0b101000, 0b010100]


def _wide_tree(k):
    t = full_tree()
    if k == 0:
        return t
    keys = list(t.keys())
    out = odict()
    for i, key in enumerate(keys):
        if (i + k) % 3 != 0:
            out[key] = t[key]
    return out


def h_wide(case: int) -> bool:
    """
    pre: WLO <= case < WHI
    post: _ == True
    """
    c = pick(case, WHI, WLO)
    with NoTracing():
        ai, bi, tk = digits(c, [NACL, 16, 4])
        ok, detail, kind, nt = check_filter(acl_of(ai), acl_of(WB[bi]), _wide_tree(tk))
        rt.record({"a": ai, "b": WB[bi], "wide_tree": tk}, ok, [ai, bi, tk] if nt else None, detail=detail,
                  fingerprint="C06:%s" % kind)
    return ok


# ---------------------------------------------------------------- overlapping rules resolved by %prio
OVERLAP = "b *\n    n * %prio=1\n        c\nb 1\n    ~ %global\n"
# the negated form of a cant_delete rule is refused even when a catch-all sibling would let the text through
OVERLAP2 = "b *\n    c %cant_delete=1 %prio=1\n    n * %prio=1\n        c\n    ~\n"
PRIO_SLOTS = [S(["p X", "p Y"], [S(["m"]), S(["dd z"])]),
              S(["b 1"], [S(["n 1"], [S(["c"]), S(["q"])]), S(["undo c"])]), S(["b 2"], [S(["n 1"], [S(["c"]), S(["q"])])])]
NPT = count(PRIO_SLOTS)
NPRIO = 8 * 7 * NPT
PLO, PHI = rt.shard_range(NPRIO)
# a %global rule that ties with the local block rule `b *` (same %prio, same share of the row's symbols in the pattern):
# the local rule is the first of the equals, so its children rules still apply
TIE = "b ~ %global\n"
PB = [0, 0b000001, 0b000010, 0b1000000, OVERLAP, OVERLAP2, TIE]


def h_prio(case: int) -> bool:
    """
    pre: PLO <= case < PHI
    post: _ == True
    """
    c = pick(case, PHI, PLO)
    with NoTracing():
        ai, bi, ti = digits(c, [8, len(PB), NPT])
        ta = acl_text(0b1000000 | ai)
        tb = PB[bi] if isinstance(PB[bi], str) else acl_text(PB[bi])
        ok, detail, kind, nt = check_filter(ta, tb, unrank(PRIO_SLOTS, ti))
        rt.record({"prio": True, "a": ai, "b": bi, "tree_idx": ti}, ok, [ai, bi, ti] if nt else None, detail=detail,
                  fingerprint="C06:%s" % kind)
    return ok


# ---------------------------------------------------------------- hand-picked shapes outside the masked grammar
def _t(d):
    return odict((k, _t(v)) for k, v in d.items())


EXPLICIT = [
    # a rule WITHOUT children rules matches a block that has lines below it (no %global in force): the lines are uncovered
    ("z\n", "", {"z": {"c": {}}}),
    ("s *\n", "a\n", {"s 1": {"p": {"q": {}}}, "a": {}}),
    ("b *\n    n *\n", "", {"b 1": {"n 1": {"c": {}}, "e": {}}}),
    ("interface *\n", "a\n", {"interface X": {"mtu 9000": {}}, "a": {}}),
    # the same row declared twice, the later occurrence childless and with other params (%global, %cant_delete, %prio)
    ("b *\ns ~\n", "s ~ %global\n", {"b 1": {"s 1": {}}, "s 2": {}}),
    ("b *\n    c\ns ~\n", "b *\ns ~ %global %cant_delete=1\n", {"b 1": {"s 1": {}, "undo s 1": {}, "c": {}}, "undo s 2": {}}),
    ("b *\n    c\n", "b * %cant_delete=1\n", {"b 1": {"c": {}}, "undo b 1": {}}),
    ("a %prio=2\n", "a\na ~ %global\n", {"a": {"c": {}}, "a 1": {}}),
]


def h_explicit(case: int) -> bool:
    """
    pre: 0 <= case < len(EXPLICIT)
    post: _ == True
    """
    c = pick(case, len(EXPLICIT))
    with NoTracing():
        ta, tb, tree = EXPLICIT[c]
        ok, detail, kind, nt = check_filter(ta, tb, _t(tree))
        rt.record({"explicit": c}, ok, [c], detail=detail, fingerprint="C06:%s" % kind)
    return ok


# ---------------------------------------------------------------- E-Z3 side obligation: grammar is heuristic-free
def z_disjoint():
    """local-direct vs global-direct vs reverse languages of the compiled grammar rules are pairwise disjoint at every level
    where they can meet (decided on the REAL compiled regexes)"""
    import z3
    from vt import rx2z3 as rx
    from annet.annlib.rbparser.acl import compile_acl_text
    rules = compile_acl_text(acl_text(0b111111), VENDOR)
    S_ = rx.Solver()
    dom = rx.row_domain()
    fails = 0

    def walk(level, inherited):
        nonlocal fails
        loc = list(level["local"].items())
        glo = list(level["global"].items()) + inherited
        for (ln, lr) in loc:
            for (gn, gr) in glo:
                for (k1, k2) in (("direct_regexp", "direct_regexp"), ("direct_regexp", "reverse_regexp"), ("reverse_regexp", "direct_regexp")):
                    r, m = S_.check(z3.InRe(S_.x, dom), z3.InRe(S_.x, rx.match_lang(lr["attrs"][k1])),
                                    z3.InRe(S_.x, rx.match_lang(gr["attrs"][k2])))
                    ok = r == "unsat"
                    rt.record({"local": ln, "global": gn, "kinds": [k1, k2], "row": m}, ok, [ln, gn, k1, k2],
                              fingerprint="C06:HARNESS:grammar-overlap")
                    fails += 0 if ok else 1
            r, m = S_.check(z3.InRe(S_.x, dom), z3.InRe(S_.x, rx.match_lang(lr["attrs"]["direct_regexp"])),
                            z3.InRe(S_.x, rx.match_lang(lr["attrs"]["reverse_regexp"])))
            rt.record({"local": ln, "kinds": ["direct", "reverse"], "row": m}, r == "unsat", [ln, "self"],
                      fingerprint="C06:HARNESS:grammar-overlap")
            fails += 0 if r == "unsat" else 1
            if lr["children"]:
                walk(lr["children"], glo)
    walk(rules, [])
    return {"verdict": "harness_error" if fails else "confirmed", "message": "grammar overlap" if fails else "",
            "queries": S_.queries, "solver_s": round(S_.solver_s, 3)}


def z_compiled():
    """E-Z3: for every ACL text of the grammar (all masks, merged pairs, prio/overlap blocks) the tree that the real
    compile_acl_text builds is compared rule by rule with the reference parse: same rule rows per level and scope, same
    cant_delete / prio / writers, and — for ALL rows of the domain — the same direct and reverse languages."""
    import re as _re
    import z3
    from vt import rx2z3 as rx
    from annet.annlib.rbparser.acl import compile_acl_text
    from annet.generators.result import _combine_acl_text
    S_ = rx.Solver()
    dom = rx.row_domain()
    fails = 0
    texts = [[("ga", acl_of(i))] for i in range(0, NACL, 5)] + [[("ga", acl_text(0b1000000 | i))] for i in range(8)] + \
            [[("ga", acl_of(a)), ("gb", acl_of(b))] for (a, b) in DEEP_PAIRS] + [[("ga", acl_text(0b000010)), ("gb", OVERLAP)]] + \
            [[("ga", "undox *\nundone\nb *\n    undock\n    undo c\n")], [("ga", acl_text(0b000010)), ("gb", TIE)]] + \
            [[("ga", a_), ("gb", b_)] for (a_, b_, _tr) in EXPLICIT if b_]
    lo, hi = rt.shard_range(len(texts))
    cache = {}

    def lang(p):
        if p.pattern not in cache:
            cache[p.pattern] = rx.match_lang(p)
        return cache[p.pattern]

    def compare(real, ref_rules, where):
        nonlocal fails
        want = {(r.row, r.is_global): r for r in ref_rules}
        got = {}
        for scope in ("local", "global"):
            for rid, rule in real[scope].items():
                got[(rid, scope == "global")] = rule
        if set(got) != set(want):
            fails += 1
            rt.record({"where": where, "annet": sorted(map(str, got)), "reference": sorted(map(str, want))}, False, [where, "rows"],
                      fingerprint="C06:compiled-acl:rule-set-differs")
            return
        for key, rule in got.items():
            r = want[key]
            attrs = rule["attrs"]
            meta_ok = list(attrs["cant_delete"]) == list(r.cant_delete) and attrs["prio"] == r.prio and \
                list(attrs["generator_names"]) == [w for w in r.writers]
            if not meta_ok:
                fails += 1
                rt.record({"where": where, "rule": key[0], "annet": [attrs["cant_delete"], attrs["prio"], attrs["generator_names"]],
                           "reference": [r.cant_delete, r.prio, r.writers]}, False, [where, key[0], "meta"],
                          fingerprint="C06:compiled-acl:params-differ")
            for (k, refre) in (("direct_regexp", r.rx), ("reverse_regexp", r.rrx)):
                v, m = S_.check(z3.InRe(S_.x, dom), z3.Xor(z3.InRe(S_.x, lang(attrs[k])), z3.InRe(S_.x, lang(refre))))
                ok = v == "unsat"
                rt.record({"where": where, "rule": key[0], "which": k, "row": rx.z3_unescape(m) if v == "sat" else None}, ok,
                          [where, key[0], k], detail={"annet": attrs[k].pattern, "reference": refre.pattern},
                          fingerprint="C06:compiled-acl:%s-language-differs" % k)
                fails += 0 if ok else 1
            if rule["children"]:
                compare(rule["children"], r.children, where + " / " + key[0])
    for ti in range(lo, hi):
        gens = texts[ti]
        if len(gens) == 1:
            text = gens[0][1]
            ref_rules = refacl.parse_acl([("", text)], PREFIX)
            for r in _all(ref_rules):
                r.writers = []
        else:
            text = _combine_acl_text({n: _G(n, t) for n, t in gens}, lambda g: g.acl)
            ref_rules = refacl.parse_acl(gens, PREFIX)
        compare(compile_acl_text(text, VENDOR), ref_rules, "acl#%d" % ti)
    return {"verdict": "refuted" if fails else "confirmed", "queries": S_.queries, "solver_s": round(S_.solver_s, 3)}


def _all(rules):
    for r in rules:
        yield r
        yield from _all(r.children)


def h_twin(case: int) -> bool:
    """
    pre: 0 <= case < NACL
    post: _ == True
    """
    # reachability twin: "strict mode never raises" must be refuted
    c = pick(case, NACL)
    with NoTracing():
        from annet.annlib import patching
        from annet.annlib.rbparser.acl import compile_acl_text
        try:
            patching.apply_acl(full_tree(), compile_acl_text(acl_of(c), VENDOR), fatal_acl=True)
            ok = True
        except patching.AclError:
            ok = False
        rt.record({"a": c}, ok, c)
    return ok


def plan(tier):
    q = tier == "quick"
    return [
        dict(name="grammar.disjoint", func="z_disjoint", kind="py", shards=1, timeout=200),
        dict(name="compiled.vs.reference", func="z_compiled", kind="py", shards=4, timeout=280 if q else 900),
        dict(name="deep", func="h_deep", shards=16 if q else 48, timeout=280 if q else 2400),
        dict(name="wide", func="h_wide", shards=16 if q else 32, timeout=280 if q else 2400),
        dict(name="prio", func="h_prio", shards=16, timeout=280 if q else 900),
        dict(name="explicit", func="h_explicit", shards=1, timeout=120),
        dict(name="twin", func="h_twin", shards=1, timeout=60, expect="refuted"),
    ]


def replay(obligation, case):
    global SLOTS
    if "where" in case:
        return {"ok": False, "detail": case, "fingerprint": "C06:compiled-acl:mismatch"}
    if "explicit" in case:
        ta, tb, tree = EXPLICIT[case["explicit"]]
        ok, detail, kind, _ = check_filter(ta, tb, _t(tree))
        return {"ok": ok, "detail": detail, "fingerprint": "C06:%s" % kind}
    if case.get("prio"):
        tb = PB[case["b"]] if isinstance(PB[case["b"]], str) else acl_text(PB[case["b"]])
        ok, detail, kind, _ = check_filter(acl_text(0b1000000 | case["a"]), tb, unrank(PRIO_SLOTS, case["tree_idx"]))
        return {"ok": ok, "detail": detail, "fingerprint": "C06:%s" % kind}
    if "tree_idx" in case:
        slots = TREE_SLOTS if case.get("tier", "quick") == "quick" else TREE_SLOTS_T
        tree = unrank(slots, case["tree_idx"])
    else:
        tree = _wide_tree(case["wide_tree"])
    ok, detail, kind, _ = check_filter(acl_of(case["a"]), acl_of(case["b"]), tree)
    return {"ok": ok, "detail": detail, "fingerprint": "C06:%s" % kind}
