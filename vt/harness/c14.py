"""C14 — shipped routing-policy generators emit ACL-covered, self-consistent config.  See DESIGN.md §C14."""
import logging
import os
import re
from collections import OrderedDict as odict

from crosshair.tracers import NoTracing

from vt import rt
from vt.common import pick, digits, tree_to_json

logging.disable(logging.CRITICAL)

META = {
    "property_id": "C14",
    "level": "exploration",
    "technique": "CrossHair/z3-certified exhaustion of a bounded RouteMap-program space (condition x action x result catalogue per "
                 "vendor) through the real policy / prefix-list / community / as-path / rd generators and _run_partial_generator",
    "functions": [
        "annet/rpl_generators/policy.py:RoutingPolicyGenerator.run_huawei", "annet/rpl_generators/policy.py:_huawei_match",
        "annet/rpl_generators/policy.py:_huawei_then", "annet/rpl_generators/policy.py:_huawei_then_as_path",
        "annet/rpl_generators/policy.py:_huawei_then_community", "annet/rpl_generators/policy.py:_huawei_then_extcommunity",
        "annet/rpl_generators/policy.py:run_arista", "annet/rpl_generators/policy.py:_arista_match", "annet/rpl_generators/policy.py:_arista_then",
        "annet/rpl_generators/policy.py:_arista_then_as_path", "annet/rpl_generators/community.py:CommunityListGenerator",
        "annet/rpl_generators/prefix_lists.py:PrefixListFilterGenerator", "annet/rpl_generators/aspath.py:AsPathFilterGenerator",
        "annet/rpl_generators/rd.py:RDFilterFilterGenerator", "annet/rpl_generators/cumulus_frr.py:CumulusPolicyGenerator.generate_cumulus_rpl",
        "annet/rpl_generators/entities.py:PrefixListNameGenerator", "annet/rpl_generators/entities.py:mangle_united_community_list_name",
        "annet/rpl/routemap.py:RouteMap.apply", "annet/rpl/statement_builder.py:StatementBuilder",
        "annet/generators/__init__.py:_run_partial_generator",
    ],
    "rule": "one path per (vendor, condition, action, result[, second statement]) index; non-trivial = the policy generator emits at "
            "least one match or action line; distinct by index",
    "explanation": "",
    "assumptions": ["one policy of 1-2 statements; per statement at most one condition and one action drawn from catalogues of every "
                    "documented R.* operator form and rule.* action form", "numeric parameters are concrete",
                    "vendors huawei (CE), arista, cumulus (text generator)"],
    "outside": ["statements with several conditions/actions", "vendors other than huawei/arista/cumulus", "semantic correctness of the emitted "
                "commands beyond nesting, ACL coverage, reference integrity and error-before-output"],
    "bounds": {"quick": "one statement: every (condition, action, result, vendor); two statements: 6 conditions x 5 actions each",
               "thorough": "two statements: all 33 conditions x 5 actions in both positions"},
}

# ---------------------------------------------------------------- entities
def entities():
    from annet.rpl_generators import CommunityList, CommunityType, CommunityLogic, RDFilter, AsPathFilter, ip_prefix_list
    clists = [
        CommunityList("C_B1", ["65000:1"]),
        CommunityList("C_B2", ["65000:2", "65000:3"]),
        CommunityList("C_BAND", ["65000:4", "65000:5"], logic=CommunityLogic.AND),
        CommunityList("C_BRE", ["65000:.*"], use_regex=True),
        CommunityList("C_RT", ["100:1"], type=CommunityType.RT),
        CommunityList("C_RT2", ["100:3", "100:4"], type=CommunityType.RT, logic=CommunityLogic.AND),
        CommunityList("C_SOO", ["100:2"], type=CommunityType.SOO),
        CommunityList("C_L", ["1:2:3"], type=CommunityType.LARGE),
        CommunityList("C_L2", ["1:2:4", "1:2:5"], type=CommunityType.LARGE),
    ]
    plists = [
        ip_prefix_list("PL4", ["10.0.0.0/8", "192.168.0.0/16"]),
        ip_prefix_list("PL4B", ["172.16.0.0/12"], or_longer=(16, 24)),
        ip_prefix_list("PL6", ["2001:db8::/32"]),
    ]
    rds = [RDFilter("RD1", 1, ["100:1"]), RDFilter("RD2", 2, ["100:2", "100:3"])]
    asps = [AsPathFilter("ASP1", ["^65000_"]), AsPathFilter("ASP2", ["_1$", "_2$"])]
    return clists, plists, rds, asps


def conditions():
    from annet.rpl import R
    return [
        ("none", lambda: []),
        ("community.has(1)", lambda: [R.community.has("C_B1")]),
        ("community.has(2)", lambda: [R.community.has("C_B1", "C_B2")]),
        ("community.has_any(1)", lambda: [R.community.has_any("C_B1")]),
        ("community.has_any(2)", lambda: [R.community.has_any("C_B1", "C_B2")]),
        ("community.has_any(3)", lambda: [R.community.has_any("C_B1", "C_BAND", "C_B2")]),
        ("community.has(regex)", lambda: [R.community.has("C_BRE")]),
        ("large_community.has(1)", lambda: [R.large_community.has("C_L")]),
        ("large_community.has_any(2)", lambda: [R.large_community.has_any("C_L", "C_L2")]),
        ("extcommunity_rt.has(1)", lambda: [R.extcommunity_rt.has("C_RT")]),
        ("extcommunity_rt.has_any(2)", lambda: [R.extcommunity_rt.has_any("C_RT", "C_RT2")]),
        ("extcommunity_soo.has(1)", lambda: [R.extcommunity_soo.has("C_SOO")]),
        ("extcommunity_soo.has_any(1)", lambda: [R.extcommunity_soo.has_any("C_SOO")]),
        ("rd.has(1)", lambda: [R.rd.has("RD1")]),
        ("rd.has(2)", lambda: [R.rd.has("RD1", "RD2")]),
        ("interface==", lambda: [R.interface == "eth0"]),
        ("protocol==", lambda: [R.protocol == "bgp"]),
        ("net_len==", lambda: [R.net_len == 24]),
        ("local_pref<", lambda: [R.local_pref < 100]),
        ("metric==", lambda: [R.metric == 5]),
        ("family==", lambda: [R.family == 4]),
        ("as_path_length==", lambda: [R.as_path_length == 3]),
        ("as_path_length>=", lambda: [R.as_path_length >= 3]),
        ("as_path_length<=", lambda: [R.as_path_length <= 3]),
        ("as_path_length.between", lambda: [R.as_path_length.between_included((1, 5))]),
        ("as_path_filter", lambda: [R.as_path_filter("ASP1")]),
        ("match_v4(1)", lambda: [R.match_v4("PL4")]),
        ("match_v4(2)", lambda: [R.match_v4("PL4", "PL4B")]),
        ("match_v4(or_longer)", lambda: [R.match_v4("PL4", or_longer=(24, 32))]),
        ("match_v4(or_longer ge only)", lambda: [R.match_v4("PL4B", or_longer=(24, None))]),
        ("match_v6(1)", lambda: [R.match_v6("PL6")]),
        ("match_v6(or_longer)", lambda: [R.match_v6("PL6", or_longer=(48, 64))]),
        ("match_v4+community", lambda: [R.match_v4("PL4"), R.community.has("C_B1")]),
    ]


def actions():
    return [
        ("none", lambda r: None),
        ("community.set(1)", lambda r: r.community.set("C_B1")),
        ("community.set()", lambda r: r.community.set()),
        ("community.add(2)", lambda r: r.community.add("C_B1", "C_B2")),
        ("community.remove(1)", lambda r: r.community.remove("C_B1")),
        ("community.set+add", lambda r: (r.community.set("C_B1"), r.community.add("C_B2"))),
        ("community.add+remove", lambda r: (r.community.add("C_B1"), r.community.remove("C_B2"))),
        ("large_community.set(1)", lambda r: r.large_community.set("C_L")),
        ("large_community.add(1)", lambda r: r.large_community.add("C_L")),
        ("large_community.remove(1)", lambda r: r.large_community.remove("C_L")),
        ("large_community.set+remove", lambda r: (r.large_community.set("C_L"), r.large_community.remove("C_L2"))),
        ("extcommunity.set(rt)", lambda r: r.extcommunity.set("C_RT")),
        ("extcommunity.set()", lambda r: r.extcommunity.set()),
        ("extcommunity.set(soo)", lambda r: r.extcommunity.set("C_SOO")),
        ("extcommunity.add(rt,soo)", lambda r: r.extcommunity.add("C_RT", "C_SOO")),
        ("extcommunity.remove(rt)", lambda r: r.extcommunity.remove("C_RT")),
        ("extcommunity.add+remove", lambda r: (r.extcommunity.add("C_RT"), r.extcommunity.remove("C_RT2"))),
        ("extcommunity_rt.add", lambda r: r.extcommunity_rt.add("C_RT")),
        ("extcommunity_rt.remove", lambda r: r.extcommunity_rt.remove("C_RT")),
        ("extcommunity_rt.set", lambda r: r.extcommunity_rt.set("C_RT")),
        ("extcommunity_soo.add", lambda r: r.extcommunity_soo.add("C_SOO")),
        ("extcommunity_soo.add+remove", lambda r: (r.extcommunity_soo.add("C_SOO"), r.extcommunity_soo.remove("C_SOO"))),
        ("as_path.set", lambda r: r.as_path.set(65001, 65002)),
        ("as_path.set()", lambda r: r.as_path.set()),
        ("as_path.prepend", lambda r: r.as_path.prepend(65001)),
        ("as_path.expand", lambda r: r.as_path.expand(65001)),
        ("as_path.delete", lambda r: r.as_path.delete(65001)),
        ("as_path.expand_last_as", lambda r: r.as_path.expand_last_as(3)),
        ("as_path.prepend+expand", lambda r: (r.as_path.prepend(65001), r.as_path.expand(65002))),
        ("as_path.prepend+delete", lambda r: (r.as_path.prepend(65001), r.as_path.delete(65002))),
        ("as_path.set+prepend", lambda r: (r.as_path.set(65001), r.as_path.prepend(65002))),
        ("next_hop.self", lambda r: r.next_hop.self()),
        ("next_hop.peer", lambda r: r.next_hop.peer()),
        ("next_hop.discard", lambda r: r.next_hop.discard()),
        ("next_hop.ipv4", lambda r: r.next_hop.ipv4_addr("10.0.0.1")),
        ("next_hop.ipv6", lambda r: r.next_hop.ipv6_addr("2001:db8::1")),
        ("next_hop.mapped", lambda r: r.next_hop.mapped_ipv4("10.0.0.1")),
        ("set_local_pref", lambda r: r.set_local_pref(200)),
        ("set_metric", lambda r: r.set_metric(10)),
        ("add_metric", lambda r: r.add_metric(10)),
        ("set_metric_type", lambda r: r.set_metric_type("type-1")),
        ("set_origin", lambda r: r.set_origin("igp")),
        ("set_tag", lambda r: r.set_tag(7)),
        ("set_mpls_label", lambda r: r.set_mpls_label()),
        ("set_rpki_valid_state", lambda r: r.set_rpki_valid_state("valid")),
        ("set_resolution", lambda r: r.set_resolution("x")),
    ]


RESULTS = ["allow", "deny", "next"]
VENDORS = ["huawei", "arista", "cumulus"]
_CONDS = None
_ACTS = None


def cat():
    global _CONDS, _ACTS
    if _CONDS is None:
        _CONDS, _ACTS = conditions(), actions()
    return _CONDS, _ACTS


class _Dev:
    def __init__(self, vendor):
        from annet.annlib.netdev.views.hardware import HardwareView
        model, soft = {"huawei": ("Huawei CE6870-48S6CQ-EI", "VRP V200R001C00SPC700"), "arista": ("Arista DCS-7368", "EOS 4.29.9.1M"),
                       "cumulus": ("Mellanox SN3700-VS2RO", "Cumulus Linux 5.4.0")}[vendor]
        self.hw = HardwareView(model, soft)
        self.hostname = "dev1"
        self.fqdn = "dev1.example"
        self.breed = vendor
        self.id = 1

        class _St:
            def flush_perf(self):
                return {}
        self.storage = _St()

    def is_pc(self):
        return self.hw.vendor == "pc"

    def __hash__(self):
        return 1


def build_policies(stmts):
    """stmts: list of (cond_i, act_i, res_i) -> list[RoutingPolicy] through the real RouteMap API"""
    from annet.rpl import RouteMap
    conds, acts = cat()
    rm = RouteMap()

    def handler(device, route):
        for n, (ci, ai, ri) in enumerate(stmts):
            with route(*conds[ci][1](), number=(n + 1) * 10, name="n%d" % n) as rule:
                acts[ai][1](rule)
                getattr(rule, RESULTS[ri])()
    handler.__name__ = "POL"
    rm(handler)
    return rm


def make_gens(vendor, rm):
    from annet.rpl_generators import (RoutingPolicyGenerator, PrefixListFilterGenerator, CommunityListGenerator,
                                      AsPathFilterGenerator, RDFilterFilterGenerator, CumulusPolicyGenerator)
    clists, plists, rds, asps = entities()

    class _Mix:
        def get_policies(self, device):
            return rm.apply(device)

        def get_prefix_lists(self, device):
            return plists

        def get_community_lists(self, device):
            return clists

        def get_rd_filters(self, device):
            return rds

        def get_as_path_filters(self, device):
            return asps

    class _St:
        def flush_perf(self):
            return {}

    import contextlib

    class _Rec:
        """records the block headers (block() appends them itself, they are not yielded)"""
        @contextlib.contextmanager
        def block(self, *tokens, indent=None):
            with super().block(*tokens, indent=indent):
                if not hasattr(self, "_vt_headers"):
                    self._vt_headers = []
                self._vt_headers.append(tuple(self._block_path))
                yield
    if vendor == "cumulus":
        class Cum(_Mix, CumulusPolicyGenerator):
            pass
        return {"cumulus": Cum()}
    out = {}
    for name, base in (("policy", RoutingPolicyGenerator), ("prefix", PrefixListFilterGenerator), ("community", CommunityListGenerator),
                       ("aspath", AsPathFilterGenerator), ("rd", RDFilterFilterGenerator)):
        cls = type("G_" + name, (_Rec, _Mix, base), {})
        out[name] = cls(_St())
    return out


def yielded_paths(gen, device):
    """iterate the generator's run() stream by hand and note the block path every line is yielded in"""
    from annet.generators.base import _filter_str
    from annet.lib import flatten
    gen._indents, gen._rows, gen._block_path = [], [], []
    gen._vt_headers = []
    stream = gen.run(device)
    paths = []
    err = None
    if stream is None:
        return paths, err
    # block headers are appended by block() itself: observe them through _rows growth
    seen_rows = 0
    try:
        for item in stream:
            text = " ".join(map(_filter_str, flatten(item))) if isinstance(item, tuple) else _filter_str(item)
            paths.append(tuple(gen._block_path) + (text,))
    except (NotImplementedError, RuntimeError, ValueError, KeyError) as e:
        err = "%s: %s" % (type(e).__name__, e)
    return paths, err


REF_PATTERNS = {
    "huawei": [
        (r"if-match community-filter (\S+)", "community"), (r"if-match large-community-filter (\S+)", "community"),
        (r"if-match extcommunity-filter (\S+)", "community"), (r"if-match extcommunity-list soo (\S+)", "community"),
        (r"apply comm-filter (\S+) delete", "community"), (r"apply extcommunity-filter rt (\S+) delete", "community"),
        (r"if-match ip-prefix (\S+)", "prefix"), (r"if-match ipv6 address prefix-list (\S+)", "prefix"),
        (r"if-match as-path-filter (\S+)", "aspath"), (r"if-match rd-filter (\S+)", "rd"),
    ],
    "arista": [
        (r"match community (?:instances )?(\S+)", "community"), (r"match large-community (\S+)", "community"),
        (r"match extcommunity (\S+)", "community"), (r"match ip address prefix-list (\S+)", "prefix"),
        (r"match ipv6 address prefix-list (\S+)", "prefix"), (r"match as-path (?!length)(\S+)", "aspath"),
        (r"set community community-list (\S+)", "community"), (r"set large-community large-community-list (\S+)", "community"),
    ],
}
DEF_PATTERNS = {
    "huawei": [
        (r"ip (?:community-filter|extcommunity-filter|large-community-filter) (?:basic|advanced) (\S+) ", "community"),
        (r"ip extcommunity-list soo (?:basic|advanced) (\S+) ", "community"),
        (r"ip (?:ip-prefix|ipv6-prefix) (\S+) ", "prefix"), (r"ip as-path-filter (\S+) ", "aspath"), (r"ip rd-filter (\S+) ", "rd"),
    ],
    "arista": [
        (r"ip (?:community-list|extcommunity-list|large-community-list) (?:regexp )?(\S+) permit", "community"),
        (r"(?:ip|ipv6) prefix-list (\S+)$", "prefix"), (r"ip as-path access-list (\S+) ", "aspath"),
    ],
}


def _names(lines, patterns):
    out = set()
    for ln in lines:
        for (pat, kind) in patterns:
            m = re.match(pat, ln.strip())
            if m:
                out.add((kind, m.group(1)))
    return out


def check_case(vendor, stmts):
    from annet.generators import _run_partial_generator, GeneratorPartialRunArgs, GeneratorError
    from annet.annlib.patching import AclError
    from annet.annlib.tabparser import parse_to_tree
    from annet.vendors import registry_connector
    conds, acts = cat()
    base = {"vendor": vendor, "statements": [[conds[c][0], acts[a][0], RESULTS[r]] for (c, a, r) in stmts]}
    dev = _Dev(vendor)
    try:
        rm = build_policies(stmts)
        rm.apply(dev)
    except NotImplementedError as e:
        return True, None, "outside:routemap-api-rejects", False
    gens = make_gens(vendor, rm)
    if vendor == "cumulus":
        try:
            out = [" ".join(x) for x in gens["cumulus"].generate_cumulus_rpl(dev)]
        except (NotImplementedError, RuntimeError, ValueError, KeyError) as e:
            return True, None, "rejected", False
        # nesting: every 'match'/'set'/'on-match'/'call' line belongs to the route-map header before it
        cur = None
        refs, defs = set(), set()
        for ln in out:
            if ln.startswith("route-map "):
                cur = ln
            elif ln.startswith(("match ", "set ", "on-match ", "call ")):
                if cur is None:
                    return False, dict(base, output=out), "line-outside-its-block", True
            elif ln == "!":
                cur = None
            for pat, kind in ((r"match community (\S+)", "community"), (r"match large-community (\S+)", "community"),
                              (r"match extcommunity (\S+)", "community"), (r"match ip address prefix-list (\S+)", "prefix"),
                              (r"match ipv6 address prefix-list (\S+)", "prefix"), (r"match as-path (?!length)(\S+)", "aspath")):
                m = re.match(pat, ln.strip())
                if m:
                    refs.add((kind, m.group(1)))
            for pat, kind in ((r"bgp (?:community-list|extcommunity-list|extcommunity|large-community-list) (?:standard |expanded )?(\S+) ", "community"),
                              (r"(?:ip|ipv6) prefix-list (\S+) ", "prefix"), (r"(?:ip|bgp) as-path access-list (\S+) ", "aspath")):
                m = re.match(pat, ln.strip())
                if m:
                    defs.add((kind, m.group(1)))
        if not refs <= defs:
            return False, dict(base, missing=sorted(refs - defs), output=out), "reference-to-undefined-list", True
        return True, None, "ok", any(ln.startswith(("match ", "set ")) for ln in out)
    # ---- huawei / arista
    fmt = registry_connector.get().match(dev.hw).make_formatter()
    outputs = {}
    for name, g in gens.items():
        # (a) stream inspection: nesting + error-before-output
        paths, err = yielded_paths(g, dev)
        if name == "policy" and err is not None:
            # compare with the same policy without the action(s): lines emitted for the rejected action must be none
            bare = [(c, 0, r) for (c, a, r) in stmts]
            gb = make_gens(vendor, build_policies(bare))["policy"]
            bpaths, berr = yielded_paths(gb, dev)
            if berr is None:
                # the condition is fine, so the error belongs to an action: nothing of it may have been emitted
                extra = [p for p in paths if p not in bpaths]
                if extra:
                    return False, dict(base, error=err, emitted_before_error=extra), "lines-emitted-before-rejecting-action", True
        # (b) production path with ACL
        try:
            res = _run_partial_generator(g, GeneratorPartialRunArgs(dev, use_acl=True))
        except GeneratorError as e:
            cause = e.__cause__
            if isinstance(cause, AclError):
                return False, dict(base, generator=name, uncovered=str(cause)), "generator-output-not-covered-by-own-acl:%s" % name, True
            if err is None and isinstance(cause, (NotImplementedError, RuntimeError, ValueError, KeyError)):
                err = "%s: %s" % (type(cause).__name__, cause)
            outputs[name] = None
            continue
        except Exception as e:  # noqa
            return False, dict(base, generator=name, error=repr(e)), "exception:%s" % type(e).__name__, True
        if res is None:
            outputs[name] = []
            continue
        tree = parse_to_tree(res.output, fmt.split)
        got = []

        def walk(t, p=()):
            for k, v in t.items():
                got.append(p + (k,))
                walk(v, p + (k,))
        walk(tree)
        want = [h for h in getattr(g, "_vt_headers", [])]
        for p in paths:
            for i in range(1, len(p) + 1):
                if p[:i] not in want:
                    want.append(p[:i])
        norm = lambda ps: sorted(set(tuple(re.sub(r"\s+", " ", x).strip() for x in p) for p in ps))
        if err is None and norm(got) != norm(want):
            return False, dict(base, generator=name, parsed=norm(got), yielded=norm(want)), "parsed-nesting-differs-from-yielded:%s" % name, True
        outputs[name] = [p[-1] for p in got]
    if outputs.get("policy") is None:
        return True, None, "rejected", False
    refs = _names(outputs["policy"], REF_PATTERNS[vendor])
    defs = set()
    for name in ("prefix", "community", "aspath", "rd"):
        if outputs.get(name) is None:
            # the list generator rejects what the policy generator accepted: the policy refers to lists nobody defines
            if any(k == {"prefix": "prefix", "community": "community", "aspath": "aspath", "rd": "rd"}[name] for k, _ in refs):
                return False, dict(base, generator=name, refs=sorted(refs)), "list-generator-rejects-what-policy-uses:%s" % name, True
            continue
        defs |= _names(outputs[name], DEF_PATTERNS[vendor])
    if vendor == "arista":
        refs = set((k, n) for k, n in refs if k != "rd")
    if not refs <= defs:
        return False, dict(base, missing=sorted(refs - defs), policy=outputs["policy"], defined=sorted(defs)), "reference-to-undefined-list", True
    return True, None, "ok", any(ln.startswith(("if-match", "apply", "match ", "set ")) for ln in outputs["policy"])


def space():
    conds, acts = cat()
    return [len(VENDORS), len(conds), len(acts), len(RESULTS)]


RAD = space()
N1 = RAD[0] * RAD[1] * RAD[2] * RAD[3]
LO, HI = rt.shard_range(N1)


def h_one(case: int) -> bool:
    """
    pre: LO <= case < HI
    post: _ == True
    """
    c = pick(case, HI, LO)
    with NoTracing():
        vi, ci, ai, ri = digits(c, RAD)
        ok, detail, kind, nt = check_case(VENDORS[vi], [(ci, ai, ri)])
        fp = "C14:%s:%s" % (VENDORS[vi], kind)
        rt.count("outcome_" + str(kind).split(":")[0])
        rt.record({"vendor": VENDORS[vi], "stmts": [[ci, ai, ri]]}, ok, [vi, ci, ai, ri] if nt else None, detail=detail, fingerprint=fp)
    return ok or rt.is_known(fp)


# two statements: the second varies over a reduced catalogue (shared lists, or_longer overrides of the same list)
C2 = [0, 2, 4, 26, 28, 29] if rt.TIER == "quick" else list(range(33))
A2 = [0, 3, 7, 22, 34]
RAD2 = [len(VENDORS), len(C2), len(A2), len(C2), len(A2)]
N2 = 1
for _r in RAD2:
    N2 *= _r
LO2, HI2 = rt.shard_range(N2)


def h_two(case: int) -> bool:
    """
    pre: LO2 <= case < HI2
    post: _ == True
    """
    c = pick(case, HI2, LO2)
    with NoTracing():
        vi, c1, a1, c2, a2 = digits(c, RAD2)
        st = [(C2[c1], A2[a1], 2), (C2[c2], A2[a2], 0)]
        ok, detail, kind, nt = check_case(VENDORS[vi], st)
        fp = "C14:%s:%s" % (VENDORS[vi], kind)
        rt.record({"vendor": VENDORS[vi], "stmts": [list(x) for x in st]}, ok, [vi, c1, a1, c2, a2] if nt else None, detail=detail, fingerprint=fp)
    return ok or rt.is_known(fp)


def h_twin(case: int) -> bool:
    """
    pre: 0 <= case < N1
    post: _ == True
    """
    # reachability twin: "no construct is ever rejected" must be refuted
    c = pick(case, N1)
    with NoTracing():
        vi, ci, ai, ri = digits((c * 7919) % N1, RAD)
        ok, detail, kind, nt = check_case(VENDORS[vi], [(ci, ai, ri)])
        good = kind != "rejected"
        rt.record({"c": c}, good, c)
    return good


def plan(tier):
    q = tier == "quick"
    return [
        dict(name="one-statement", func="h_one", shards=16, timeout=280 if q else 1500),
        dict(name="two-statements", func="h_two", shards=8 if q else 16, timeout=280 if q else 2400),
        dict(name="twin", func="h_twin", shards=1, timeout=120, expect="refuted"),
    ]


def replay(obligation, case):
    ok, detail, kind, _ = check_case(case["vendor"], [tuple(x) for x in case["stmts"]])
    return {"ok": ok, "detail": detail, "fingerprint": "C14:%s:%s" % (case["vendor"], kind)}
