"""C12 — worker pool delivers exactly one outcome per submitted id, for every schedule.  See DESIGN.md §C12.

The real Parallel.irun/_check_children/_run_callbacks run in the CrossHair thread; the real pool_worker/_pool_worker run
in lock-stepped Python threads.  `annet.parallel.mp` is replaced (attribute assignment, run time only) by a deterministic
stand-in: FIFO queues, Process = thread whose exit code becomes visible only after a scheduler-granted step.
The SCHEDULE is the symbolic input: at every parent-side scheduling point (done_queue.get, every exitcode read, start, and
every yield to the consumer) the next decisions say "advance worker j by one step" or "parent continues".
"""
import asyncio
import logging
import os
import queue as pyqueue
import sys
import threading

from crosshair.tracers import NoTracing

from vt import rt
from vt.common import pick, digits

META = {
    "property_id": "C12",
    "level": "other",
    "technique": "CrossHair/z3 over a symbolic schedule vector driving the real irun/_pool_worker with a deterministic "
                 "multiprocessing stand-in (bounded schedule exploration decided path by path, exhaustion certified)",
    "functions": [
        "annet/parallel.py:Parallel.irun", "annet/parallel.py:Parallel._check_children", "annet/parallel.py:Parallel.run",
        "annet/parallel.py:Parallel._run_callbacks", "annet/parallel.py:Parallel._cb_wrapper",
        "annet/parallel.py:pool_worker", "annet/parallel.py:_pool_worker", "annet/parallel.py:invoke_retry",
    ],
    "rule": "one CrossHair path per (schedule prefix, n, max_tasks, raising set, tolerate_fails, tail policy); non-trivial = at "
            "least two workers produced a result; distinct by the full decoded vector",
    "explanation": "Bounded schedule verification: the interleaving of parent and workers is a symbolic vector of K decisions "
                   "(values 0..pool) consumed at the parent's scheduling points, after which a fair tail policy (eager or lazy) "
                   "finishes the run; CrossHair enumerates every vector inside the bound and reports CONFIRMED only if every one "
                   "terminated with multiset(delivered ids) == submitted and payload(id) == f(id).  A counterexample is a concrete "
                   "schedule, replayed without CrossHair.",
    "assumptions": [
        "granularity: parent and workers interleave only at queue get/put, process start, exit-code visibility and consumer yields",
        "stand-in for multiprocessing: FIFO queues; an item put by a worker is pickled by the feeder when it leaves the worker (at "
        "the worker's next queue operation or regular exit; what cannot be pickled is dropped there; what is still buffered is lost "
        "if the worker dies through os._exit) and unpickled by the parent; SimpleQueue = synchronous 64 KiB pipe whose put never "
        "returns when the pipe is full and no reader has been started",
        "no signals, no wall-clock timeout branch (task_timeout), no externally killed workers",
        "logging disabled; tracing connector is annet's no-op default",
    ],
    "outside": ["OS-level pipe behaviour", "more than the stated ids/pool/decisions", "KeyboardInterrupt handling"],
    "bounds": {"quick": "n in {2,3} ids, pool 2, max_tasks in {1,2,25}, tasks: all succeed / id 0 raises / last raises / id 0 returns a container with an unpicklable element, K=6 decisions + tail policy; big-ids: 40 KB ids, K=3",
               "thorough": "n in {2,3,4}, pool in {2,3}, max_tasks in {1,2,25}, K=7 (pool 2) / 5 (pool 3) decisions + tail policy"},
}

logging.disable(logging.CRITICAL)


class Abort(BaseException):
    pass


class HardExit(BaseException):
    """os._exit() in a worker: the process dies at once, nothing buffered for the queue feeder is flushed"""

    def __init__(self, code):
        self.code = code


class _OsProxy:
    def __getattr__(self, name):
        return getattr(os, name)

    @staticmethod
    def _exit(code):
        if _me() is None:
            os._exit(code)
        raise HardExit(code)


class Sched:
    """Lock-step scheduler.  decisions: list of ints; 0 = parent continues, j>=1 = advance worker slot j-1."""

    def __init__(self, decisions, tail):
        self.decisions = list(decisions)
        self.pos = 0
        self.tail = tail  # "eager" | "lazy"
        self.workers = []  # FakeProcess in start order
        self.steps = 0
        self.aborting = False
        self.trace = []

    def live(self):
        return [w for w in self.workers if w.started and w.state != "done"]

    def enabled(self, w):
        if not w.started or w.state == "done" or w.state is None:
            return False
        if w.state == "want_get":
            return len(w.wait_queue.items) > 0
        return True

    def advance(self, w):
        if not self.enabled(w):
            return False
        self.steps += 1
        self.trace.append("%s:%s" % (w.name, w.state))
        w.parked.clear()
        w.go.set()
        w.parked.wait(20)
        return True

    def by_slot(self, j):
        # the j-th live worker slot (by name order), newest process of that slot
        names = sorted(set(w.name for w in self.workers if w.started))
        if j >= len(names):
            return None
        cands = [w for w in self.workers if w.name == names[j] and w.started and w.state != "done"]
        return cands[-1] if cands else None

    def point(self, what):
        """parent-side scheduling point"""
        while self.pos < len(self.decisions):
            d = self.decisions[self.pos]
            self.pos += 1
            if d == 0:
                return
            w = self.by_slot(d - 1)
            if w is not None:
                self.advance(w)
        # decisions exhausted: fair tail policy
        if self.tail == "eager":
            progress = True
            while progress:
                progress = False
                for w in self.live():
                    if self.advance(w):
                        progress = True
        else:
            # lazy: workers move only when the parent is about to wait on an empty queue (see FakeQueue.get)
            pass

    def lazy_kick(self):
        for w in self.live():
            if self.advance(w):
                return True
        return False

    def shutdown(self):
        self.aborting = True
        for w in self.workers:
            if w.thread is not None and w.thread.is_alive():
                w.go.set()
        for w in self.workers:
            if w.thread is not None:
                w.thread.join(5)


_sched = None


def _me():
    return getattr(threading.current_thread(), "vt_proc", None)


class _Pickled:
    def __init__(self, data):
        self.data = data


class FakeQueue:
    def __init__(self):
        self.items = []

    def put(self, item, *a, **kw):
        w = _me()
        if w is not None:
            w.wait_queue = self
            w.park("want_put")
            # multiprocessing hands the item to a feeder thread; it reaches the pipe before the worker's next
            # queue operation or its regular exit (which joins the feeder), but not if the process dies abruptly
            w.buffer.append((self, item))
            return
        self.items.append(item)

    def get(self, block=True, timeout=None):
        w = _me()
        if w is not None:
            w.wait_queue = self
            w.park("want_get")
            return self.items.pop(0)
        # parent side
        _sched.point("get")
        if not self.items and _sched.pos >= len(_sched.decisions) and _sched.tail == "lazy":
            _sched.lazy_kick()
        if self.items:
            import pickle
            # results cross a process boundary: what the worker's feeder pickled must be loadable by the parent
            item = self.items.pop(0)
            return pickle.loads(item.data) if isinstance(item, _Pickled) else item
        _sched.empties += 1
        if _sched.empties > 200:
            raise RuntimeError("VT-NONTERMINATION: parent polled an empty queue 200 times without progress")
        raise pyqueue.Empty()

    def qsize(self):
        return len(self.items)

    def close(self):
        pass


class FakeProcess:
    def __init__(self, name=None, target=None, args=()):
        self.name = name
        self.target = target
        self.args = args
        self.pid = 4242
        self._exitcode = None
        self.state = None
        self.started = False
        self.thread = None
        self.go = threading.Event()
        self.parked = threading.Event()
        self.wait_queue = None
        self.buffer = []
        _sched.workers.append(self)

    def flush(self):
        import pickle
        for (q, item) in self.buffer:
            # the feeder thread pickles the item; an object that cannot be pickled is dropped there (the error is
            # only printed in the worker) and never reaches the parent
            try:
                q.items.append(_Pickled(pickle.dumps(item)))
            except Exception:  # noqa
                pass
        self.buffer = []

    def park(self, state):
        self.flush()
        self.state = state
        self.parked.set()
        self.go.wait()
        self.go.clear()
        if _sched.aborting:
            raise Abort()

    def _run(self):
        code = 0
        try:
            try:
                self.target(*self.args)
            except SystemExit as e:
                code = e.code if isinstance(e.code, int) else 1
            except HardExit as e:
                code = e.code
                self.buffer = []
            except Abort:
                raise
            except BaseException:  # noqa
                code = 1
            finally:
                try:
                    loop = asyncio.get_event_loop_policy()._local._loop  # the loop pool_worker created for this thread
                    if loop is not None:
                        loop.close()
                except Exception:
                    pass
            self.park("want_exit")
            self._exitcode = code
        except Abort:
            pass
        finally:
            self.state = "done"
            self.parked.set()

    def start(self):
        self.started = True
        self.thread = threading.Thread(target=self._run, daemon=True)
        self.thread.vt_proc = self
        self.parked.clear()
        self.thread.start()
        self.parked.wait(20)  # runs up to its first park point (task_queue.get)
        _sched.point("start")

    @property
    def exitcode(self):
        _sched.point("exitcode")
        return self._exitcode

    def join(self, timeout=None):
        pass

    def terminate(self):
        pass


class FakeSimpleQueue(FakeQueue):
    """multiprocessing.SimpleQueue: no feeder thread, put() writes the pickled item straight into an OS pipe (64 KiB) and
    blocks while the pipe is full; with no reader running that is for ever"""
    PIPE = 65536

    def __init__(self):
        super().__init__()
        self.pending = 0

    def put(self, item, *a, **kw):
        import pickle
        data = pickle.dumps(item)
        w = _me()
        if w is not None:
            w.wait_queue = self
            w.park("want_put")
        if self.pending + len(data) > self.PIPE and not any(x.started for x in _sched.workers):
            raise RuntimeError("VT-NONTERMINATION: SimpleQueue.put() blocks: pipe full (%d bytes pending) and no reader started"
                               % self.pending)
        self.pending += len(data)
        self.items.append(_Pickled(data))

    def get(self, block=True, timeout=None):
        import pickle
        w = _me()
        if w is not None:
            w.wait_queue = self
            w.park("want_get")
            item = self.items.pop(0)
            self.pending -= len(item.data)
            return pickle.loads(item.data)
        return super().get(block, timeout)

    def empty(self):
        return not self.items


class FakeMP:
    Queue = FakeQueue
    SimpleQueue = FakeSimpleQueue
    Process = FakeProcess

    @staticmethod
    def current_process():
        w = _me()

        class _P:
            name = w.name if w is not None else "MainProcess"
        return _P()

    @staticmethod
    def cpu_count():
        return 4


def _num(dev_id):
    return int(dev_id.split(":")[0]) if isinstance(dev_id, str) else dev_id


_attempts = {}


def task(dev_id, raising=(), unpicklable=(), net=(), net_once=()):
    if _num(dev_id) in raising:
        raise ValueError("boom %s" % _num(dev_id))
    if _num(dev_id) in net:
        # a connection error on every attempt: after the retries the id is a FAILURE
        raise ConnectionResetError("boom net %s" % _num(dev_id))
    if _num(dev_id) in net_once:
        # a connection error on the first attempt only: the retry succeeds
        _attempts[_num(dev_id)] = _attempts.get(_num(dev_id), 0) + 1
        if _attempts[_num(dev_id)] == 1:
            raise BrokenPipeError("transient %s" % _num(dev_id))
    if _num(dev_id) in unpicklable:
        # a plain container that holds something that cannot cross the process boundary
        return ["text", (x for x in ())]
    return _num(dev_id) * 7 + 1


def run_schedule(n, pool, max_tasks, raising, tolerate, decisions, tail, via_run=False, big=False):
    """Execute the real pool under one concrete schedule.  Returns (ok, detail, nworkers_with_results)."""
    global _sched
    import annet.parallel as par
    saved = par.mp
    saved_os = par.os
    _sched = Sched(decisions, tail)
    _sched.empties = 0
    par.mp = FakeMP
    par.os = _OsProxy()
    # big: ids the size of long file paths / texts (what file-diff submits), 40 KB each
    ids = ["%d:%s" % (i, "x" * 40000) for i in range(n)] if big else list(range(n))
    unp = tuple(_num(ids[0]) for _ in (1,) if "unp" in raising)
    net = tuple(_num(ids[0]) for _ in (1,) if "net" in raising)
    net_once = tuple(_num(ids[0]) for _ in (1,) if "net1" in raising)
    raising = [r for r in raising if r not in ("unp", "net", "net1")]
    _attempts.clear()
    delivered = []
    raised = None
    try:
        p = par.Parallel(task, raising=tuple(raising), unpicklable=unp, net=net, net_once=net_once).tune(parallel=pool, max_tasks=max_tasks)
        try:
            if via_run:
                ok_d, fail_d = p.run(ids, tolerate_fails=tolerate)
                for k, v in ok_d.items():
                    delivered.append((_num(k), v, None))
                for k, v in fail_d.items():
                    delivered.append((_num(k), None, "exc"))
            else:
                for res in p.irun(ids, tolerate_fails=tolerate):
                    delivered.append((_num(res.device_id), res.result, None if res.exc is None else "exc"))
                    _sched.empties = 0
                    _sched.point("yield")
        except RuntimeError as e:
            if "VT-NONTERMINATION" in str(e):
                return False, {"why": "non-termination", "delivered": delivered, "trace": _sched.trace[-30:]}, 0
            raised = repr(e)
        except Exception as e:  # noqa
            raised = repr(e)
    finally:
        par.mp = saved
        par.os = saved_os
        _sched.shutdown()
    workers_used = len(set(t.split(":")[0] for t in _sched.trace if t.endswith("want_put")))
    bad_ids = set(raising) | set(unp) | set(net)
    want = sorted((i, None if i in bad_ids else i * 7 + 1, "exc" if i in bad_ids else None) for i in range(n))
    got = sorted(delivered, key=lambda x: (x[0], str(x[1])))
    detail = {"submitted": list(range(n)), "delivered": got, "order": list(delivered), "raised": raised, "trace": _sched.trace[-40:]}
    if raised is not None:
        if not tolerate and bad_ids and ("boom" in raised or "pickle" in raised.lower()):
            # the documented abort: no duplicates among what was delivered before
            ok = len(set(d[0] for d in delivered)) == len(delivered)
            return ok, detail, workers_used
        return False, detail, workers_used
    if [tuple(x) for x in got] != [tuple(x) for x in want]:
        return False, detail, workers_used
    return True, detail, workers_used


# ---------------------------------------------------------------- space
POOLS = [2] if rt.TIER == "quick" else [2, 3]
NS = [2, 3] if rt.TIER == "quick" else [2, 3, 4]
K = int(os.environ.get("VT_KDEC", "6" if rt.TIER == "quick" else "8"))
POOL = int(os.environ.get("VT_POOL", "2"))
MAXT = [1, 2, 25]
RAISE = [(), (0,), ("last",), ("unp",), ("net",), ("net1",)]
RAD = [POOL + 1] * K + [len(NS), len(MAXT), len(RAISE), 2, 2]
NCASE = 1
for _r in RAD:
    NCASE *= _r
LO, HI = rt.shard_range(NCASE)


def decode(c):
    ds = digits(c, RAD)
    decisions = ds[:K]
    n = NS[ds[K]]
    maxt = MAXT[ds[K + 1]]
    rs = RAISE[ds[K + 2]]
    raising = tuple((n - 1) if r == "last" else r for r in rs)
    tolerate = bool(ds[K + 3])
    tail = "eager" if ds[K + 4] == 0 else "lazy"
    return {"n": n, "pool": POOL, "max_tasks": maxt, "raising": list(raising), "tolerate": tolerate,
            "decisions": decisions, "tail": tail}


def h_sched(case: int) -> bool:
    """
    pre: LO <= case < HI
    post: _ == True
    """
    c = pick(case, HI, LO)
    with NoTracing():
        cs = decode(c)
        ok, detail, used = run_schedule(cs["n"], cs["pool"], cs["max_tasks"], cs["raising"], cs["tolerate"],
                                        cs["decisions"], cs["tail"])
        rt.record(cs, ok, cs if used >= 2 else None, detail=detail, fingerprint=_fp(cs, detail, ok))
    return ok


def _fp(cs, detail, ok):
    if ok:
        return None
    if detail.get("why") == "non-termination":
        return "C12:irun:non-termination"
    if detail.get("raised"):
        return "C12:irun:unexpected-exception"
    sub, got = detail.get("submitted", []), [d[0] for d in detail.get("delivered", [])]
    if len(got) < len(sub):
        return "C12:irun:results-lost"
    if len(got) > len(sub):
        return "C12:irun:results-duplicated"
    return "C12:irun:wrong-payload"


def h_single(case: int) -> bool:
    """
    pre: 0 <= case < 48
    post: _ == True
    """
    # single-process path (parallel == 1 or a single id) and Parallel.run splitting
    c = pick(case, 48)
    with NoTracing():
        n, r, tol, via = digits(c, [4, 3, 2, 2])
        rs = RAISE[r]
        raising = tuple((n - 1) if x == "last" else x for x in rs if n > 0)
        raising = tuple(x for x in raising if 0 <= x < n)
        ok, detail, _ = run_schedule(n, 1, 25, raising, bool(tol), [], "eager", via_run=bool(via))
        cs = {"n": n, "pool": 1, "max_tasks": 25, "raising": list(raising), "tolerate": bool(tol), "decisions": [],
              "tail": "eager", "via_run": bool(via)}
        rt.record(cs, ok, cs if n >= 1 else None, detail=detail, fingerprint=_fp(cs, detail, ok))
    return ok


def h_big(case: int) -> bool:
    """
    pre: 0 <= case < 108
    post: _ == True
    """
    # ids of 40 KB each (long paths / texts): whatever carries the tasks must not stall before the workers run
    c = pick(case, 108)
    with NoTracing():
        ds = digits(c, [3, 3, 3, 2, 2])
        n, tail = [2, 3][ds[3]], ["eager", "lazy"][ds[4]]
        ok, detail, used = run_schedule(n, 2, 25, (), True, ds[:3], tail, big=True)
        cs = {"n": n, "pool": 2, "max_tasks": 25, "raising": [], "tolerate": True, "decisions": ds[:3], "tail": tail, "big": True}
        rt.record(cs, ok, cs, detail=detail, fingerprint=_fp(cs, detail, ok))
    return ok


def h_twin(case: int) -> bool:
    """
    pre: 0 <= case < 81
    post: _ == True
    """
    # reachability twin: "results always arrive in submission order" must be refuted by some schedule
    c = pick(case, 81)
    with NoTracing():
        ds = digits(c, [3, 3, 3, 3])
        ok0, detail, _ = run_schedule(3, 2, 25, (), True, ds, "lazy")
        order = [d[0] for d in detail.get("order", [])]
        ok = order == sorted(order)
        rt.record({"decisions": ds}, ok, ds)
    return ok


def plan(tier):
    q = tier == "quick"
    obs = [dict(name="single", func="h_single", shards=1, timeout=120),
           dict(name="big-ids", func="h_big", shards=2, timeout=200),
           dict(name="twin", func="h_twin", shards=1, timeout=120, expect="refuted")]
    for pool in ([2] if q else [2, 3]):
        obs.append(dict(name="sched.pool%d" % pool, func="h_sched", shards=16 if q else 48, timeout=280 if q else 3000,
                        env={"VT_POOL": pool, "VT_KDEC": 6 if q else (7 if pool == 2 else 5)},
                        bound="pool=%d, K=%d decisions" % (pool, 6 if q else (7 if pool == 2 else 5))))
    return obs


def replay(obligation, case):
    ok, detail, _ = run_schedule(case["n"], case["pool"], case["max_tasks"], case["raising"], case["tolerate"],
                                 case["decisions"], case["tail"], via_run=case.get("via_run", False), big=case.get("big", False))
    return {"ok": ok, "detail": detail, "fingerprint": _fp(case, detail, ok)}
