"""C18 — every known hardware model resolves to one vendor and a loadable rulebook.  See DESIGN.md §C18."""
import itertools
import os
import re

from crosshair.tracers import NoTracing

from vt import rt
from vt.common import pick, digits

META = {
    "property_id": "C18",
    "level": "other",
    "engine_name": "E-Z3+E-CH",
    "technique": "z3 string/regex synthesis of a model string for every devdb sequence (conjunction of the real search-regex chain) and "
                 "z3 intersection queries for vendor ambiguity; the synthesised models are then pushed through the real "
                 "HardwareView / Registry.match / get_rulebook",
    "functions": [
        "annet/annlib/netdev/devdb/__init__.py:parse_hw_model", "annet/annlib/netdev/devdb/__init__.py:_prepare_db",
        "annet/annlib/netdev/db.py:get_db", "annet/annlib/netdev/db.py:find_true_sequences", "annet/annlib/netdev/db.py:_build_tree",
        "annet/annlib/netdev/db.py:_make_allowed_by_seq", "annet/annlib/netdev/views/hardware.py:HardwareLeaf.__getattr__",
        "annet/annlib/netdev/views/hardware.py:HardwareView.match", "annet/vendors/registry.py:Registry.match",
        "annet/hardware.py:AnnetHardwareProvider.hw_to_vendor", "annet/rulebook/__init__.py:DefaultRulebookProvider.get_rulebook",
        "annet/rulebook/__init__.py:_render_rul", "annet/rulebook/__init__.py:_escape_mako", "annet/rulebook/common.py:import_rulebook_function",
        "annet/rulebook/patching.py:compile_patching_text", "annet/annlib/rbparser/ordering.py:compile_ordering_text",
        "annet/rulebook/deploying.py:compile_deploying_text", "annet/annlib/netdev/devdb/data/devdb.json",
    ],
    "rule": "one obligation per devdb sequence (168): SMT synthesis of a model string + hierarchy / vendor-order / rulebook checks on "
            "it; one SMT intersection query per pair of vendor match expressions of equal depth; non-trivial = sequence depth >= 2",
    "explanation": "SMT synthesis: for every dotted sequence of devdb.json the conjunction 'model contains a match of r_i' over the "
                   "sequence's regex chain (the real compiled re objects translated to z3 regular expressions, search semantics) is "
                   "solved for a model string; for every pair of registered vendors whose match expressions have the same depth the "
                   "intersection of their chains is decided (unsat = the vendor choice cannot depend on registration order for any "
                   "model string of the domain, sat = a witness model, replayed on Registry.match under both registration orders). "
                   "Everything downstream (true_sequences prefix closure, Registry.match under all registration permutations of the "
                   "matching vendors, get_rulebook with all logic functions resolved, structural equality of two fresh providers) "
                   "runs the real code on the synthesised strings; that finite space is covered completely.",
    "assumptions": ["model strings: printable ASCII, length <= 48", "software versions: '' and 'VRP V200R001C00SPC700' / 'EOS 4.29' shapes "
                    "(no shipped template branches on hw.soft)"],
    "outside": ["model strings that match no devdb sequence", "rulebook providers other than DefaultRulebookProvider"],
    "bounds": {"quick": "one synthesised model string per devdb sequence (168)", "thorough": "up to 6 distinct synthesised model strings per sequence"},
}


def search_lang(rx, pat):
    """z3 regex of { s | pat.search(s) }"""
    import z3
    tree = rx.parse(pat.pattern, pat.flags)
    nodes = list(tree)
    import re._constants as C
    anchored = bool(nodes) and nodes[0][0] is C.AT and nodes[0][1] in (C.AT_BEGINNING, C.AT_BEGINNING_STRING)
    ic = bool(tree.state.flags & re.IGNORECASE)
    body = rx.T(nodes, rx.SIGMA_STAR, ic, True)
    return body if anchored else z3.Concat(rx.SIGMA_STAR, body)


def _db():
    from annet.annlib.netdev.devdb import _prepare_db
    return _prepare_db()


def chain_of(prepared, seq):
    return [prepared[seq[:i]] for i in range(1, len(seq) + 1)]


_wit_cache = {}


def synth(S, rx, dom, prepared, seqs, extra=(), variant=0):
    """model string satisfying every regex of the chains.  First try: one z3 membership query per regex (cached) and
    concatenation of the witnesses (search semantics makes the concatenation satisfy every unanchored regex); the result is
    validated on the real re objects; if that fails the joint conjunction is given to z3."""
    import z3
    regs = []
    for seq in seqs:
        for r in chain_of(prepared, seq):
            if r not in regs:
                regs.append(r)
    parts = []
    for r in regs:
        wl = _wit_cache.setdefault(r.pattern, [])
        while len(wl) <= variant:
            # next distinct witness of this regex (earlier ones are blocked); None once the language is exhausted
            if wl and wl[-1] is None:
                wl.append(None)
                continue
            L = rx.fullmatch_lang(re.compile(r.pattern.lstrip("^"), r.flags))
            cons = [z3.InRe(S.x, dom), z3.Length(S.x) <= 24, z3.InRe(S.x, L)] + [S.x != z3.StringVal(w) for w in wl if w is not None]
            v, m = S.check(*cons)
            wl.append(rx.z3_unescape(m) if v == "sat" else None)
        w = wl[variant] if wl[variant] is not None else next((x for x in wl if x is not None), None)
        parts.append((r, w))
    if all(w is not None for _, w in parts) and not extra:
        anchored = [w for r, w in parts if r.pattern.startswith("^")]
        rest = [w for r, w in parts if not r.pattern.startswith("^")]
        if len(anchored) <= 1:
            cand = "".join(anchored + rest)
            for sep in ("", " "):
                c2 = sep.join(anchored + rest)
                if all(r.search(c2) for r, _ in parts) and len(c2) <= 48:
                    return "sat", c2
    cons = [z3.InRe(S.x, dom), z3.Length(S.x) <= 48]
    for r in regs:
        cons.append(z3.InRe(S.x, search_lang(rx, r)))
    cons.extend(extra)
    v, m = S.check(*cons)
    return v, (rx.z3_unescape(m) if v == "sat" else m)


def _dump_rb(x, depth=0):
    """structural fingerprint of a compiled rulebook"""
    if isinstance(x, dict):
        return [(str(k), _dump_rb(v, depth + 1)) for k, v in x.items()]
    if isinstance(x, (list, tuple)):
        return [_dump_rb(v, depth + 1) for v in x]
    if isinstance(x, re.Pattern):
        return ("re", x.pattern, x.flags)
    if callable(x):
        return ("fn", getattr(x, "__module__", ""), getattr(x, "__qualname__", repr(x)))
    return repr(x)


def registry_result(hw, order):
    """vendor chosen by a fresh Registry with vendor classes registered in `order` (list of names)"""
    from annet.vendors.registry import Registry
    from annet.vendors import registry_connector
    real = registry_connector.get()
    reg = Registry()
    for name in order:
        reg.register(type(real.vendors[name]))
    v = reg.match(hw, None)
    return v.NAME if v else None


def check_model(seq, model):
    from annet.annlib.netdev.views.hardware import HardwareView
    from annet.annlib.netdev.devdb import parse_hw_model
    from annet.vendors import registry_connector
    from annet.rulebook import DefaultRulebookProvider
    base = {"sequence": ".".join(seq), "model": model}
    true_seqs, false_seqs = parse_hw_model(model)
    tset = set(tuple(t) for t in true_seqs)
    known = tset | set(tuple(f) for f in false_seqs)
    if tuple(seq) not in tset:
        return False, dict(base, true=[".".join(t) for t in true_seqs][:12]), "synthesised-model-not-recognised"
    for t in tset:
        for i in range(1, len(t)):
            if t[:i] in known and t[:i] not in tset:
                return False, dict(base, leaf=".".join(t), ancestor=".".join(t[:i])), "family-true-but-ancestor-false"
    real = registry_connector.get()
    for soft in ("", "VRP V200R001C00SPC700"):
        hw = HardwareView(model, soft)
        names = list(real.vendors)
        matching = [n for n in names if any(_safe_match(hw, e) for e in real.vendors[n].match())]
        res = set()
        for perm in itertools.permutations(matching):
            order = [n for n in names if n not in matching] + list(perm)
            res.add(registry_result(hw, order))
        if len(res) > 1:
            return False, dict(base, matching=matching, results=sorted(str(r) for r in res)), \
                "vendor-depends-on-registration-order:%s" % "/".join(sorted(matching))
        # lookups interleaved with registration: a registry that answered before a more specific vendor was registered
        # must answer like a fresh registry holding the same vendors
        from annet.vendors.registry import Registry
        for perm in itertools.permutations(matching):
            reg = Registry()
            have = []
            for n in [x for x in names if x not in matching][:2] + list(perm):
                reg.register(type(real.vendors[n]))
                have.append(n)
                v1 = reg.match(hw, None)
                v2 = registry_result(hw, have)
                if (v1.NAME if v1 else None) != v2:
                    return False, dict(base, registered=list(have), stale=(v1.NAME if v1 else None), fresh=v2), \
                        "vendor-depends-on-lookup-history"
        vendor = hw.vendor
        if matching:
            best = max(max(e.count(".") for e in real.vendors[n].match() if _safe_match(hw, e)) for n in matching)
            if vendor not in [n for n in matching if any(_safe_match(hw, e) and e.count(".") == best for e in real.vendors[n].match())]:
                return False, dict(base, vendor=vendor, matching=matching), "vendor-not-most-specific"
        if vendor in real:
            try:
                rb1 = DefaultRulebookProvider().get_rulebook(hw)
                rb2 = DefaultRulebookProvider().get_rulebook(HardwareView(model, soft))
            except Exception as e:  # noqa
                return False, dict(base, vendor=vendor, soft=soft, error=repr(e)), "rulebook-does-not-load:%s" % type(e).__name__
            if _dump_rb(rb1) != _dump_rb(rb2):
                return False, dict(base, vendor=vendor), "rulebook-loading-not-deterministic"
    return True, None, None


def _safe_match(hw, expr):
    try:
        return hw.match(expr)
    except AttributeError:
        return False


def z_models():
    import z3
    from vt import rx2z3 as rx
    prepared = _db()
    seqs = sorted(prepared)
    lo, hi = rt.shard_range(len(seqs))
    S = rx.Solver(timeout_ms=30000)
    dom = z3.Plus(z3.Range(" ", "~"))
    bad = 0
    unknown = []
    _models_seen = []
    nvar = 1 if rt.TIER == "quick" else 6
    work = [(seq, v) for seq in seqs[lo:hi] for v in range(nvar)]
    done = set()
    for (seq, variant) in work:
        r, model = synth(S, rx, dom, prepared, [seq], variant=variant)
        if r == "sat" and (seq, model) in done:
            continue
        done.add((seq, model))
        _models_seen.append(model if r == "sat" else None)
        if r != "sat":
            if r == "unsat":
                # the chain can never match: the sequence is dead in devdb
                rt.record({"sequence": ".".join(seq), "model": None}, False, list(seq), detail={"verdict": r},
                          fingerprint="C18:devdb:unreachable-sequence:%s" % ".".join(seq))
                bad += 1
            else:
                unknown.append(".".join(seq))
            continue
        # translator validation: the real regexes must agree with the synthesis
        for rgx in chain_of(prepared, seq):
            if not rgx.search(model):
                return {"verdict": "harness_error", "message": "witness %r does not satisfy %r" % (model, rgx.pattern)}
        ok, detail, kind = check_model(seq, model)
        rt.record({"sequence": ".".join(seq), "model": model}, ok, list(seq) if len(seq) >= 2 else None, detail=detail,
                  fingerprint="C18:%s" % kind)
        bad += 0 if ok else 1
    # one provider serving all models of this shard, in both orders: every rulebook must equal the fresh-provider one
    from annet.rulebook import DefaultRulebookProvider
    from annet.annlib.netdev.views.hardware import HardwareView
    from annet.vendors import registry_connector
    models = [m for m in _models_seen if m is not None]
    for order in (models, list(reversed(models))):
        prov = DefaultRulebookProvider()
        for m in order:
            hw = HardwareView(m, "")
            if hw.vendor not in registry_connector.get():
                continue
            try:
                shared = _dump_rb(prov.get_rulebook(hw))
                fresh = _dump_rb(DefaultRulebookProvider().get_rulebook(HardwareView(m, "")))
            except Exception as e:  # noqa
                continue
            ok = shared == fresh
            rt.record({"provider_sequence": order, "model": m}, ok, ["shared", m], detail={"model": m, "loaded_before": order[:order.index(m)][-6:]},
                      fingerprint="C18:rulebook-depends-on-provider-history")
            bad += 0 if ok else 1
    return {"verdict": "refuted" if bad else ("inconclusive" if unknown else "confirmed"), "queries": S.queries,
            "solver_s": round(S.solver_s, 3), "unknown": unknown}


def z_ambiguity():
    """pairs of vendor match expressions of equal depth: can one model string satisfy both?"""
    import z3
    from vt import rx2z3 as rx
    from annet.vendors import registry_connector
    from annet.annlib.netdev.devdb import parse_hw_model
    prepared = _db()
    real = registry_connector.get()
    # resolve every vendor expression to its full devdb sequence (expressions may use unique shortcuts)
    full = {}
    _, allseq = None, None
    from annet.annlib.netdev.db import _make_allowed_by_seq
    allowed = _make_allowed_by_seq(prepared)
    short2full = {}
    for seq, variants in allowed.items():
        for v in variants:
            short2full[v] = seq
    exprs = []
    for name, v in real.vendors.items():
        for e in v.match():
            path = tuple(e.split("."))
            if path not in short2full:
                rt.record({"vendor": name, "expr": e}, False, [name, e], detail={"why": "expression is not a devdb sequence"},
                          fingerprint="C18:vendor-expression-unknown:%s" % name)
                continue
            exprs.append((name, e, short2full[path]))
    S = rx.Solver(timeout_ms=30000)
    dom = z3.Plus(z3.Range(" ", "~"))
    bad = 0
    for (a, b) in itertools.combinations(exprs, 2):
        if a[0] == b[0] or a[1].count(".") != b[1].count("."):
            continue
        r, model = synth(S, rx, dom, prepared, [a[2], b[2]])
        if r == "unsat":
            rt.record({"a": list(a[:2]), "b": list(b[:2]), "model": None}, True, [a[0], b[0], a[1], b[1]])
            continue
        if r != "sat":
            continue
        # a more specific expression of a third vendor may still decide: replay on the real registry
        ok = _order_independent(model)
        rt.record({"a": list(a[:2]), "b": list(b[:2]), "model": model}, ok, [a[0], b[0], a[1], b[1]],
                  detail={"model": model, "matches": [a[:2], b[:2]]},
                  fingerprint="C18:vendor-depends-on-registration-order:%s" % "/".join(sorted([a[0], b[0]])))
        bad += 0 if ok else 1
    return {"verdict": "refuted" if bad else "confirmed", "queries": S.queries, "solver_s": round(S.solver_s, 3)}


def _order_independent(model):
    from annet.annlib.netdev.views.hardware import HardwareView
    from annet.vendors import registry_connector
    real = registry_connector.get()
    hw = HardwareView(model, "")
    names = list(real.vendors)
    matching = [n for n in names if any(_safe_match(hw, e) for e in real.vendors[n].match())]
    res = set()
    for perm in itertools.permutations(matching):
        res.add(registry_result(hw, [n for n in names if n not in matching] + list(perm)))
    return len(res) <= 1


def plan(tier):
    q = tier == "quick"
    return [
        dict(name="models", func="z_models", kind="py", shards=16, timeout=280 if q else 1500),
        dict(name="vendor.ambiguity", func="z_ambiguity", kind="py", shards=1, timeout=280 if q else 1500),
    ]


def replay(obligation, case):
    if obligation == "models" and "provider_sequence" in case:
        from annet.rulebook import DefaultRulebookProvider
        from annet.annlib.netdev.views.hardware import HardwareView
        from annet.vendors import registry_connector
        prov = DefaultRulebookProvider()
        ok = True
        for m in case["provider_sequence"]:
            hw = HardwareView(m, "")
            if hw.vendor not in registry_connector.get():
                continue
            shared = _dump_rb(prov.get_rulebook(hw))
            if m == case["model"]:
                ok = shared == _dump_rb(DefaultRulebookProvider().get_rulebook(HardwareView(m, "")))
                break
        return {"ok": ok, "detail": case, "fingerprint": "C18:rulebook-depends-on-provider-history"}
    if obligation == "models":
        if case.get("model") is None:
            return {"ok": False, "detail": case, "fingerprint": "C18:devdb:unreachable-sequence:%s" % case["sequence"]}
        ok, detail, kind = check_model(tuple(case["sequence"].split(".")), case["model"])
        return {"ok": ok, "detail": detail, "fingerprint": "C18:%s" % kind}
    if "expr" in case:
        return {"ok": False, "detail": case, "fingerprint": "C18:vendor-expression-unknown:%s" % case["vendor"]}
    ok = _order_independent(case["model"])
    return {"ok": ok, "detail": case, "fingerprint": "C18:vendor-depends-on-registration-order:%s" % "/".join(sorted([case["a"][0], case["b"][0]]))}
