"""C20 — results are independent of processing history and inputs are left unmodified.  See DESIGN.md §C20."""
import copy
import json
import os
import re
import subprocess
import sys
from collections import OrderedDict as odict

from crosshair.tracers import NoTracing

from vt import rt
from vt.common import pick, digits, make_hw, make_rb, StubDevice, tree, tree_to_json

META = {
    "property_id": "C20",
    "level": "exploration",
    "technique": "CrossHair/z3-certified exhaustion of bounded job-sequence spaces: each job's diff/patch/ordered config after a history "
                 "is compared with the same job run alone in a fresh subprocess; deep snapshots of inputs and compiled rulebooks",
    "functions": [
        "annet/api/__init__.py:_diff_and_patch", "annet/annlib/patching.py:make_diff", "annet/annlib/patching.py:make_patch",
        "annet/annlib/patching.py:Orderer.order_config", "annet/annlib/patching.py:_select_match",
        "annet/annlib/patching.py:_find_acl_matches", "annet/rulebook/__init__.py:DefaultRulebookProvider.get_rulebook",
        "annet/rulebook/patching.py:compile_patching_text", "annet/annlib/rbparser/acl.py:compile_acl_text",
        "annet/annlib/rbparser/ordering.py:compile_ordering_text", "annet/annlib/rbparser/syntax.py:compile_row_regexp",
        "annet/annlib/rulebook/common.py:default_instead_undo", "annet/rulebook/huawei/bgp.py:undo_commit",
        "annet/rulebook/cisco/misc.py:ssh_key",
    ],
    "rule": "one path per job sequence (j1..jn) index; every job of the sequence is compared with its fresh-process result; "
            "non-trivial = the last job produces at least one command and shares vendor or ACL with an earlier job",
    "explanation": "",
    "assumptions": ["job corpus: 23 jobs over shipped huawei (CE/NE/Quidway models), cisco, arista, nexus and aruba rulebooks (incl. "
                    "huawei.bgp.undo_commit, cisco.misc.ssh_key, common.default_instead_undo), reference tracking (RefTracker), a provider "
                    "with a rulebook directory of its own, synthetic logic that writes to its rule argument in place (top level and "
                    "nested), jobs sharing one compiled ACL; compared: diff, command paths, patch text, PatchTree.to_json, ordered "
                    "config, structural dump of the compiled rulebook", "each path starts with annet's known caches cleared, so the history is exactly the sequence",
                    "fresh-process results are computed once per run in subprocesses"],
    "outside": ["state that neither the caches nor the compared results expose", "generators / storage layers"],
    "bounds": {"quick": "all sequences of length 2 over 23 jobs; fresh-process results under string hash seeds 0..3", "thorough": "all sequences of length 3"},
}

SYN_RB = "x * %logic=common.default_instead_undo\ny *\nb *\n    x * %logic=common.default_instead_undo\n"
SYN_MUT = "z * %logic=c20synth.mutating\ny *\nb *\n    z * %logic=c20synth.mutating\n"
J_ACL = "system\n    ntp\n        server ~\nprotocols\n    bgp\n        ~ %global\n"
ACL1 = "interface *\n    description\n    mtu\nsysname\n"

JOBS = [
    # (vendor, rulebook or None (=shipped), old, new, acl, add_comments)
    ("huawei", None, {"bgp 65000": {"peer 1.1.1.1 as-number 1": {}}, "sysname a": {}}, {"sysname a": {}}, None, False),
    ("huawei", None, {"sysname a": {}}, {"bgp 65000": {"peer 1.1.1.1 as-number 1": {}}, "sysname b": {}}, None, False),
    ("cisco", None, {"hostname r1": {}}, {"hostname r1": {}, "ip ssh version 2": {}}, None, True),
    ("cisco", None, {"ip ssh version 2": {}, "hostname r1": {}}, {"hostname r2": {}}, None, True),
    ("arista", None, {"ip load-sharing trident fields ip source-ip": {}, "hostname a": {}}, {"hostname a": {}}, None, False),
    ("arista", None, {"hostname a": {}}, {"ip load-sharing trident fields ipv6 source-ip": {}, "hostname b": {}}, None, False),
    ("cisco", SYN_RB, {"x 1": {}, "x 2 v": {}, "y 1": {}}, {"y 1": {}}, None, False),
    ("cisco", SYN_RB, {"x 3": {}, "b 1": {"x 1": {}}}, {"x 3 v": {}, "b 1": {}}, None, False),
    ("huawei", None, {"interface GE1/0/1": {"description a": {}, "mtu 9000": {}, "shutdown": {}}, "sysname a": {}},
     {"interface GE1/0/1": {"description b": {}}, "sysname b": {}}, ACL1, False),
    ("huawei", None, {"interface GE1/0/2": {"description x": {}, "mtu 1500": {}}, "sysname a": {}, "ntp server 1.1.1.1": {}},
     {"interface GE1/0/2": {"mtu 9000": {}}, "interface GE1/0/3": {"description n": {}}}, ACL1, False),
    ("nexus", None, {"vlan 2,3": {}, "hostname n": {}}, {"vlan 2-3,6": {}, "ip ssh version 2": {}, "hostname n": {}}, None, False),
    ("huawei", None, {"ip ip-prefix PL index 5 permit 10.0.0.0 8": {}, "ip ip-prefix PL index 10 permit 10.1.0.0 16": {}},
     {"ip ip-prefix PL index 5 permit 10.0.0.0 8": {}}, None, False),
    # same vendor, other hardware families (huawei.rul is a template branching on hw.Huawei.CE / NE / Quidway)
    ("model:Huawei NE40E", None, {"interface GE0/1/0": {"trust dscp": {}, "description a": {}}, "sysname a": {}},
     {"interface GE0/1/0": {"trust 8021p": {}}, "sysname b": {}}, None, False),
    ("model:Huawei CE6870", None, {"interface 10GE1/0/1": {"trust dscp": {}, "description a": {}, "port link-type trunk": {}}, "sysname a": {}},
     {"interface 10GE1/0/1": {"trust 8021p": {}}, "sysname b": {}}, None, False),
    ("model:Huawei S5700", None, {"interface GigabitEthernet0/0/1": {"trust dscp": {}, "description a": {}, "bpdu enable": {}}, "sysname a": {}},
     {"interface GigabitEthernet0/0/1": {"trust 8021p": {}}, "stp mode mstp": {}}, None, False),
    # nested rows that the rulebook ignores / does not know (make_diff drops them from its own copies only)
    ("cisco", None, {"interface GigabitEthernet1": {"no ip address": {}, "description a": {}, "zzz unknown": {}}, "hostname r": {}},
     {"interface GigabitEthernet1": {"no ip address": {}, "description b": {}}, "hostname r": {}}, None, False),
    ("arista", None, {"router bgp 1": {"no neighbor 1.1.1.1 shutdown": {}, "neighbor 1.1.1.1 remote-as 2": {}}},
     {"router bgp 1": {"neighbor 1.1.1.1 remote-as 3": {}}}, None, False),
    # reference tracking (generator A refers to what generator B defines): two devices share the DEFINITION text but refer
    # to it from different blocks; the 7th element is (referring rows, defining rows) fed to RefTracker
    ("arista", None, {}, {"router bgp 65000": {"neighbor 192.0.2.1 route-map RM_SPINE in": {}},
                          "route-map RM_SPINE permit 10": {"match ip address prefix-list PL_LO": {}},
                          "ip prefix-list PL_LO seq 10 permit 10.0.0.0/8 le 32": {}}, None, False,
     (["route-map RM_SPINE permit 10"], ["ip prefix-list PL_LO seq 10 permit 10.0.0.0/8 le 32"])),
    ("arista", None, {}, {"router bgp 65000": {"neighbor 192.0.2.1 route-map RM_TOR in": {}},
                          "route-map RM_TOR permit 10": {"match ip address prefix-list PL_LO": {}},
                          "ip prefix-list PL_LO seq 10 permit 10.0.0.0/8 le 32": {}}, None, False,
     (["route-map RM_TOR permit 10"], ["ip prefix-list PL_LO seq 10 permit 10.0.0.0/8 le 32"])),
    # a rulebook directory of its own (custom provider root_dir) for a model the shipped provider also serves
    ("cisco", ("dir", SYN_RB), {"x 1": {}, "y 1": {}, "hostname r1": {}}, {"y 2": {}, "hostname r2": {}}, None, False),
    # logic that writes to its rule argument, top level and nested, in place (comments shown)
    ("cisco", SYN_MUT, {"z 1": {}, "z 2 v": {}, "y 1": {}}, {"z 2 w": {}, "y 1": {}}, None, True),
    ("cisco", SYN_MUT, {"y 1": {}, "b 1": {"z 1": {}}}, {"y 2": {}, "b 1": {}}, None, True),
    # one nested ACL text compiled for a second vendor (ACL1 is also used by the huawei jobs above)
    ("cisco", None, {"interface GigabitEthernet1": {"description a": {}, "mtu 9000": {}}, "hostname r": {}},
     {"interface GigabitEthernet1": {"description b": {}}, "hostname r": {}}, ACL1, False),
    # vendors sharing the negation word (delete): the same ACL text for ribbon and juniper; only juniper reads `inactive:` marks
    ("ribbon", None, {"system": {"ntp": {"server 10.0.0.1": {}}}}, {"system": {"ntp": {"server 10.0.0.2": {}}}}, J_ACL, False),
    ("juniper", None, {"system": {"ntp": {"server 10.0.0.2": {}, "inactive: server 10.0.0.3": {}}}, "protocols": {"bgp": {"inactive: group PEERS": {"type external": {}}}}},
     {"system": {"ntp": {"server 10.0.0.2": {}, "server 10.0.0.3": {}}}, "protocols": {"bgp": {"inactive: group PEERS": {"type external": {}}}}}, J_ACL, False),
    # the only shipped rulebook with top-level %context rows
    ("aruba", None, {"hostname a": {}}, {"hostname b": {}, "wlan ssid-profile x": {"essid x": {}}}, None, False),
]


def clear_caches():
    from annet.annlib.rbparser import syntax, acl, ordering
    from annet.annlib.rbparser import deploying as adeploy
    from annet.rulebook import patching as rpatching, deploying as rdeploy, common as rcommon, rulebook_provider_connector
    for fn in (syntax.compile_row_regexp, acl.compile_acl_text, acl.compile_ref_acl_text, acl._make_reverse,
               ordering.compile_ordering_text, rpatching.compile_patching_text, rpatching._make_reverse,
               rdeploy.compile_deploying_text, rcommon.import_rulebook_function, adeploy._simplify_text):
        # a function that is no longer an lru_cache wrapper keeps whatever state it has: the history then simply is longer
        if hasattr(fn, "cache_clear"):
            fn.cache_clear()
    rulebook_provider_connector._cache = None


def dump_rb(x):
    if isinstance(x, dict):
        return [(str(k), dump_rb(v)) for k, v in x.items() if k != "match"]
    if isinstance(x, (list, tuple)):
        return [dump_rb(v) for v in x]
    if isinstance(x, re.Pattern):
        return ("re", x.pattern, x.flags)
    if callable(x):
        return ("fn", getattr(x, "__module__", ""), getattr(x, "__qualname__", repr(x)))
    return repr(x)


def plain_diff(diff):
    return [[str(getattr(op, "value", op)), row, plain_diff(ch), (m or {}).get("raw_rule") if isinstance(m, dict) else None]
            for (op, row, ch, m) in diff]


def run_job(j):
    """-> (result, mutation report)"""
    from annet import api, rulebook
    from annet.vendors import registry_connector
    from annet.annlib.rbparser.acl import compile_acl_text
    from annet.patching import Orderer
    vendor, rbtext, old, new, acl, comments = JOBS[j][:6]
    refs = JOBS[j][6] if len(JOBS[j]) > 6 else None
    if vendor.startswith("model:"):
        from annet.annlib.netdev.views.hardware import HardwareView
        hw = HardwareView(vendor[6:], None)
    else:
        hw = make_hw(vendor)
    dev = StubDevice(hw)
    from vt.harness import c20synth
    c20synth.install()
    tmpdir = None
    if isinstance(rbtext, tuple):
        # a provider of its own with a rulebook directory of its own
        import tempfile
        from annet.rulebook import DefaultRulebookProvider
        tmpdir = tempfile.mkdtemp(prefix="vt_c20rb_", dir="/var/tmp")
        os.makedirs(os.path.join(tmpdir, "texts"))
        with open(os.path.join(tmpdir, "texts", hw.vendor + ".rul"), "w") as f:
            f.write(rbtext[1])
        try:
            rb = DefaultRulebookProvider(root_dir=tmpdir).get_rulebook(hw)
        finally:
            import shutil
            shutil.rmtree(tmpdir, ignore_errors=True)
    else:
        rb = make_rb(rbtext, hw.vendor) if rbtext else rulebook.get_rulebook(hw)
    old_t, new_t = tree(old), tree(new)
    snap_old, snap_new, snap_rb = tree_to_json(old_t), tree_to_json(new_t), dump_rb(rb)
    acl_rules = compile_acl_text(acl, hw.vendor) if acl else None
    ref_track = None
    if refs:
        from annet.reference import RefTracker

        class _Refers:
            pass

        class _Defines:
            pass
        ref_track = RefTracker()
        ref_track.add(_Refers, _Defines)
        ref_track.config(_Refers, tree({r: new[r] for r in refs[0]}))
        ref_track.config(_Defines, tree({r: new[r] for r in refs[1]}))
    diff, patch = api._diff_and_patch(dev, old_t, new_t, acl_rules, None, comments, ref_track=ref_track, rb=rb)
    fmt = registry_connector.get().match(hw).make_formatter()
    orderer = Orderer(rb["ordering"], hw.vendor)
    if ref_track:
        orderer.ref_insert(ref_track)
    ordered = orderer.order_config(new_t)
    res = {
        "diff": plain_diff(diff),
        "cmds": [list(p) for p in fmt.cmd_paths(patch)],
        "patch_text": fmt.patch(patch),
        "ordered": tree_to_json(ordered),
        # the metadata deploy rules are matched against, and the compiled rulebook itself
        "patch_json": json.loads(json.dumps(patch.to_json(), default=repr)),
        "rulebook": json.loads(json.dumps(dump_rb(rb), default=repr)),
    }
    mutated = []
    if tree_to_json(old_t) != snap_old:
        mutated.append("old")
    if tree_to_json(new_t) != snap_new:
        mutated.append("new")
    if dump_rb(rb) != snap_rb:
        mutated.append("rulebook")
    return res, mutated


_fresh = {}
_ROOT = os.path.dirname(os.path.dirname(os.path.dirname(os.path.abspath(__file__))))


def fresh(j, hashseed="0"):
    if (j, hashseed) not in _fresh:
        out = subprocess.run([sys.executable, "-m", "vt.harness.c20", "fresh", str(j)], capture_output=True, text=True, cwd=_ROOT,
                             env=dict(os.environ, PYTHONPATH=_ROOT + (os.pathsep + os.environ["VT_REPO"] if os.environ.get("VT_REPO") else ""), PYTHONDONTWRITEBYTECODE="1", PYTHONHASHSEED=hashseed))
        line = [ln for ln in out.stdout.splitlines() if ln.startswith("RESULT ")]
        if not line:
            raise RuntimeError("fresh run failed: %s" % (out.stdout + out.stderr)[-600:])
        _fresh[(j, hashseed)] = json.loads(line[0][7:])
    return _fresh[(j, hashseed)]


HASHSEEDS = ["1", "2", "3"]


def check_determinism(j):
    """a fresh process gives the same result whatever its string hash seed (set iteration order) is"""
    want = fresh(j, "0")
    for hs in HASHSEEDS:
        got = fresh(j, hs)
        if got != want:
            which = [k for k in want if got.get(k) != want[k]]
            return False, {"job": j, "hashseed": hs, "differs": which, "seed0": {k: want[k] for k in which},
                           "this_seed": {k: got[k] for k in which}}, "fresh-result-depends-on-hash-seed:job%d:%s" % (j, ",".join(which)), True
    return True, None, None, bool(want["cmds"])


def h_determinism(case: int) -> bool:
    """
    pre: 0 <= case < NJ
    post: _ == True
    """
    c = pick(case, NJ)
    with NoTracing():
        ok, detail, kind, nt = check_determinism(c)
        rt.record({"determinism": c}, ok, [c] if nt else None, detail=detail, fingerprint="C20:%s" % kind)
    return ok


def check_sequence(seq):
    clear_caches()
    last = None
    for pos, j in enumerate(seq):
        try:
            res, mutated = run_job(j)
        except Exception as e:  # noqa
            return False, {"sequence": seq, "position": pos, "error": repr(e)}, "exception:%s" % type(e).__name__, False
        if mutated:
            return False, {"sequence": seq, "position": pos, "mutated": mutated}, "inputs-modified:%s" % ",".join(mutated), True
        want = fresh(j)
        res = json.loads(json.dumps(res))
        if res != want:
            which = [k for k in want if res.get(k) != want[k]]
            return False, {"sequence": seq, "position": pos, "job": j, "differs": which,
                           "after_history": {k: res[k] for k in which}, "fresh": {k: want[k] for k in which}}, \
                "result-depends-on-history:job%d:%s" % (j, ",".join(which)), True
        # repeating the same job immediately gives the same answer (shared ACL / rulebook objects)
        res2, mutated2 = run_job(j)
        if json.loads(json.dumps(res2)) != want:
            return False, {"sequence": seq, "position": pos, "job": j, "repeat": True}, "result-changes-when-repeated:job%d" % j, True
        last = res
    vend = lambda j: "huawei" if JOBS[j][0].startswith("model:Huawei") else JOBS[j][0]
    related = any(vend(a) == vend(seq[-1]) or (JOBS[a][4] and JOBS[a][4] == JOBS[seq[-1]][4]) for a in seq[:-1])
    return True, None, None, bool(last and last["cmds"]) and related


NJ = len(JOBS)
LEN = 2 if rt.TIER == "quick" else 3
NSEQ = NJ ** LEN
LO, HI = rt.shard_range(NSEQ)


def h_history(case: int) -> bool:
    """
    pre: LO <= case < HI
    post: _ == True
    """
    c = pick(case, HI, LO)
    with NoTracing():
        seq = digits(c, [NJ] * LEN)
        ok, detail, kind, nt = check_sequence(seq)
        rt.record({"sequence": seq}, ok, seq if nt else None, detail=detail, fingerprint="C20:%s" % kind)
    return ok


def h_twin(case: int) -> bool:
    """
    pre: 0 <= case < NJ
    post: _ == True
    """
    # reachability twin: "every job yields an empty patch" must be refuted
    c = pick(case, NJ)
    with NoTracing():
        clear_caches()
        res, _ = run_job(c)
        ok = not res["cmds"]
        rt.record({"c": c}, ok, c)
    return ok


def plan(tier):
    q = tier == "quick"
    return [
        dict(name="history", func="h_history", shards=16, timeout=280 if q else 2400),
        dict(name="fresh.hashseeds", func="h_determinism", shards=4, timeout=280),
        dict(name="twin", func="h_twin", shards=1, timeout=120, expect="refuted"),
    ]


def replay(obligation, case):
    if "determinism" in case:
        ok, detail, kind, _ = check_determinism(case["determinism"])
        return {"ok": ok, "detail": detail, "fingerprint": "C20:%s" % kind}
    ok, detail, kind, _ = check_sequence(case["sequence"])
    return {"ok": ok, "detail": detail, "fingerprint": "C20:%s" % kind}


if __name__ == "__main__":
    if len(sys.argv) > 2 and sys.argv[1] == "fresh":
        from vt import common
        common.setup_annet()
        r, _m = run_job(int(sys.argv[2]))
        print("RESULT " + json.dumps(r))
