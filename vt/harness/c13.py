"""C13 — JSON fragments stay inside their pointers; JSON patches reproduce the target.  See DESIGN.md §C13."""
import copy
import fnmatch
import json
import os

from crosshair.tracers import NoTracing

from vt import rt
from vt.common import pick, digits, space

META = {
    "property_id": "C13",
    "level": "exploration",
    "technique": "CrossHair/z3: unbounded symbolic reload priorities through new_json_fragment_files + solver-certified exhaustion of bounded document/fragment/pointer spaces through the real jsontools "
                 "functions against an independent RFC 6901 + glob reference",
    "functions": [
        "annet/annlib/jsontools.py:apply_json_fragment", "annet/annlib/jsontools.py:_resolve_json_pointers",
        "annet/annlib/jsontools.py:_ensure_pointer_exists", "annet/annlib/jsontools.py:make_patch",
        "annet/annlib/jsontools.py:apply_patch", "annet/annlib/jsontools.py:apply_acl_filters",
        "annet/annlib/jsontools.py:format_json", "annet/generators/result.py:RunGeneratorResult.new_json_fragment_files",
    ],
    "rule": "one path per (old, new) or (old, fragment, pointer list) index; non-trivial = the patch has >=1 operation / the "
            "fragment changes the document; distinct by the decoded documents",
    "explanation": "",
    "assumptions": ["documents follow one schema (a path is an object in every document that has it)",
                    "pointer patterns select object members, not array elements (array elements cannot be deleted by the merge)",
                    "jsonpatch/jsonpointer libraries are trusted for APPLYING a patch (not for making one)", "string hash seeds 0..3 (quick) / 0..4 (thorough) for the patch round trip, 0 and 2 for chains, 0 elsewhere"],
    "outside": ["pointer patterns that index into arrays", "documents outside the schema", "safe ACLs (acl_safe)"],
    "bounds": {"quick": "patch: 128x128 documents (arrays up to 4 elements incl. permutations) under 4 hash seeds; fragment: 64 old x 32 fragments x 24 pointer lists",
               "thorough": "patch: 648x648 under 5 hash seeds; fragment: 128 x 64 x 90 pointer lists"},
}

# ---------------------------------------------------------------- RefJson
def unescape(part):
    return part.replace("~1", "/").replace("~0", "~")


def escape(key):
    return key.replace("~", "~0").replace("/", "~1")


def ref_resolve(pattern, doc):
    """RFC 6901 pointer with fnmatch globs per reference token -> list of key tuples existing in doc"""
    if pattern == "":
        return [()]
    assert pattern.startswith("/")
    parts = [unescape(p) for p in pattern[1:].split("/")]
    cur = [((), doc)]
    for part in parts:
        nxt = []
        for (path, d) in cur:
            if isinstance(d, dict):
                for k in d:
                    if fnmatch.fnmatchcase(k, part):
                        nxt.append((path + (k,), d[k]))
            elif isinstance(d, list):
                for i in range(len(d)):
                    if fnmatch.fnmatchcase(str(i), part):
                        nxt.append((path + (str(i),), d[i]))
        cur = nxt
    return [p for (p, _) in cur]


def get_at(doc, path):
    for k in path:
        doc = doc[int(k)] if isinstance(doc, list) else doc[k]
    return doc


def selected(doc, acl):
    out = {}
    for pat in acl:
        for p in ref_resolve(pat, doc):
            out[p] = get_at(doc, p)
    return out


def complement(doc, ptrs, prune_under):
    """doc without the pointers `ptrs`; empty objects left behind on the ancestor chains in `prune_under` are removed"""
    doc = copy.deepcopy(doc)
    for p in sorted(ptrs, key=lambda p: -len(p)):
        try:
            parent = get_at(doc, p[:-1])
        except (KeyError, IndexError, TypeError):
            continue
        if isinstance(parent, dict):
            parent.pop(p[-1], None)
    anc = set()
    for p in prune_under:
        for i in range(1, len(p)):
            anc.add(p[:i])
    for a in sorted(anc, key=lambda p: -len(p)):
        try:
            parent = get_at(doc, a[:-1])
            v = parent[a[-1]] if isinstance(parent, dict) else None
        except (KeyError, IndexError, TypeError):
            continue
        if isinstance(parent, dict) and v == {}:
            del parent[a[-1]]
    return doc


def is_subdoc(small, big):
    if isinstance(small, dict):
        return isinstance(big, dict) and all(k in big and is_subdoc(v, big[k]) for k, v in small.items())
    return small == big


# ---------------------------------------------------------------- document spaces
A_FULL = [None, {}, {"x": 1}, {"x": 2}, {"x": 1, "y": 1}, {"y": 2}]
B_FULL = [None, [], [1], [1, 2], [2, 1], [1, 2, 3, 4], [4, 1], [2, 4], [3]]
K_FULL = [None, 1, 2]
T_FULL = [None, {}, {"p|ipe": 1}, {"*": 1}, {"p|ipe": 2, "*": 1}]
S_FULL = [None, 1]


NULL = "<json null>"


def _nulls(x):
    if isinstance(x, dict):
        return {k: _nulls(v) for k, v in x.items()}
    return None if x == NULL else x


def mk_doc(a, b, k, t, s):
    d = {}
    if a is not None:
        # an explicit JSON null is a value like any other ("set this key to null"), not an absent key
        d["a"] = _nulls(copy.deepcopy(a))
    if b is not None:
        d["b"] = list(b)
    if k is not None:
        d["k/ey"] = k
    if t is not None:
        d["t~ilde"] = copy.deepcopy(t)
    if s is not None:
        d["s"] = s
    return d


ACLS = ["/a", "/a/x", "/a/*", "/*", "/k~1ey", "/t~0ilde", "/t~0ilde/p|ipe", "/t~0ilde/[*]", "/t~0ilde/*", "/s", "/a/y", "/?"]
PAIRS = [(0, 5), (1, 0), (2, 10), (3, 9), (4, 6), (6, 7), (7, 8), (8, 4), (9, 0), (5, 2), (11, 1), (10, 1),
         (0, 1), (2, 0), (6, 5), (3, 4), (4, 3), (1, 10), (8, 6), (7, 5), (5, 8), (9, 11), (11, 9), (2, 7)]


def acl_lists(tier):
    ls = [[a] for a in ACLS] + [[ACLS[i], ACLS[j]] for (i, j) in (PAIRS[:12] if tier == "quick" else PAIRS)]
    if tier != "quick":
        ls += [[ACLS[i], ACLS[j], ACLS[(i + j) % len(ACLS)]] for (i, j) in PAIRS] + [[ACLS[j], ACLS[i]] for (i, j) in PAIRS]
    return ls


def patch_space(tier):
    if tier == "quick":
        return [A_FULL[:2] + A_FULL[3:5], B_FULL[:8], K_FULL[:2], T_FULL[:2], [None]]
    return [A_FULL, B_FULL, K_FULL, T_FULL[:3] + [T_FULL[4]], [None]]


def frag_space(tier):
    A4 = [None, {}, {"x": 1}, {"x": 2, "y": 1}]
    T4 = [None, {"p|ipe": 1}, {"*": 1}, {"p|ipe": 2, "*": 1}]
    AN = A4 + [{"x": NULL}]
    if tier == "quick":
        return ([A4, [None], K_FULL[:2], T4, S_FULL], [AN, [None], K_FULL[:2], T4, [None]])
    return ([AN + [{"y": 2}], [None, [1, 2]], K_FULL[:2], T4, S_FULL], [AN + [{"x": NULL, "y": 1}], [None, [2]], K_FULL[:2], T4, [None]])


def _doc_from(spaces, idx):
    ds = digits(idx, [len(s) for s in spaces])
    return mk_doc(*[spaces[i][ds[i]] for i in range(5)])


# ---------------------------------------------------------------- checks
def check_patch(old, new):
    from annet.annlib import jsontools
    try:
        patch = jsontools.make_patch(copy.deepcopy(old), copy.deepcopy(new))
        out = jsontools.apply_patch(json.dumps(old).encode(), json.dumps(patch).encode())
        got = json.loads(out)
    except Exception as e:  # noqa
        return False, {"old": old, "new": new, "error": repr(e)}, "C13:make_patch:exception:%s" % type(e).__name__, 0
    if got != new:
        kind = "array" if any(isinstance(v, list) and old.get(k) != v for k, v in new.items()) else "object"
        return False, {"old": old, "new": new, "patch": patch, "applied": got}, "C13:make_patch:apply-differs:%s" % kind, len(patch)
    return True, None, None, len(patch)


def check_fragment(old, frag, acl):
    from annet.annlib import jsontools
    o0, f0 = copy.deepcopy(old), copy.deepcopy(frag)
    try:
        r = jsontools.apply_json_fragment(old, frag, acl)
    except Exception as e:  # noqa
        return False, {"old": o0, "fragment": f0, "acl": acl, "error": repr(e)}, "C13:fragment:exception:%s" % type(e).__name__, False
    base = {"old": o0, "fragment": f0, "acl": acl, "result": r}
    if old != o0 or frag != f0:
        return False, base, "C13:fragment:inputs-mutated", True
    sr, sf, so = selected(r, acl), selected(frag, acl), selected(o0, acl)
    if sr != sf:
        return False, dict(base, selected_result={"/".join(k): v for k, v in sr.items()},
                           selected_fragment={"/".join(k): v for k, v in sf.items()}), "C13:fragment:selected-part-differs", True
    under = set(sr) | set(sf) | set(so)
    if complement(r, sr, under) != complement(o0, so, under):
        return False, dict(base, rest_result=complement(r, sr, under), rest_old=complement(o0, so, under)), \
            "C13:fragment:outside-part-changed", True
    try:
        r2 = jsontools.apply_json_fragment(copy.deepcopy(r), frag, acl)
        flt = jsontools.apply_acl_filters(copy.deepcopy(o0), acl)
    except Exception as e:  # noqa
        return False, dict(base, error=repr(e)), "C13:fragment:exception:%s" % type(e).__name__, True
    if r2 != r:
        return False, dict(base, second=r2), "C13:fragment:not-idempotent", True
    # filter result is a sub-document containing every selected pointer
    if not is_subdoc(flt, o0):
        return False, dict(base, filtered=flt), "C13:filter:not-a-subdocument", True
    for p, v in so.items():
        try:
            if get_at(flt, p) != v:
                raise KeyError
        except (KeyError, IndexError, TypeError):
            return False, dict(base, filtered=flt, missing="/".join(p)), "C13:filter:selected-pointer-missing", True
    return True, None, None, r != o0


def check_chain(old, f1, acl1, prio1, f2, acl2, prio2):
    """new_json_fragment_files: two generators on one file"""
    from annet.annlib import jsontools
    from annet.generators.result import RunGeneratorResult
    from annet.types import GeneratorJSONFragmentResult
    res = RunGeneratorResult()
    for i, (f, acl, prio) in enumerate(((f1, acl1, prio1), (f2, acl2, prio2))):
        res.add_json_fragment(GeneratorJSONFragmentResult(
            name="g%d" % i, tags=[], path="/etc/x.json", acl=acl, acl_safe=acl, config=copy.deepcopy(f),
            reload="reload-%d" % i, perf=None, reload_prio=prio))
    try:
        files = res.new_json_fragment_files({"/etc/x.json": copy.deepcopy(old)})
        cfg, reload_cmd = files["/etc/x.json"]
        step1 = jsontools.apply_json_fragment(copy.deepcopy(old), f1, acl1)
        want = jsontools.apply_json_fragment(copy.deepcopy(step1), f2, acl2)
    except Exception as e:  # noqa
        return False, {"old": old, "f1": f1, "acl1": acl1, "f2": f2, "acl2": acl2, "error": repr(e)}, \
            "C13:fragment:exception:%s" % type(e).__name__, True
    p1 = prio1 if step1 != old else 0
    p2 = prio2 if want != step1 else 0
    want_reload = "reload-0" if p1 > p2 else "reload-1"
    ok = cfg == want and reload_cmd == want_reload
    return ok, {"old": old, "f1": f1, "acl1": acl1, "f2": f2, "acl2": acl2, "prios": [prio1, prio2], "config": cfg,
                "want": want, "reload": reload_cmd, "want_reload": want_reload}, "C13:chain:config-or-reload", cfg != old


# ---------------------------------------------------------------- harnesses
PSPACE = patch_space(rt.TIER)
NDOC = space([len(s) for s in PSPACE])
NP = NDOC * NDOC
PLO, PHI = rt.shard_range(NP)


def h_patch(case: int) -> bool:
    """
    pre: PLO <= case < PHI
    post: _ == True
    """
    c = pick(case, PHI, PLO)
    with NoTracing():
        old, new = _doc_from(PSPACE, c % NDOC), _doc_from(PSPACE, c // NDOC)
        ok, detail, fp, nops = check_patch(old, new)
        rt.record({"old": old, "new": new}, ok, [old, new] if nops else None, detail=detail, fingerprint=fp)
    return ok


FOLD, FFRAG = frag_space(rt.TIER)
ALS = acl_lists(rt.TIER)
NFO, NFF = space([len(s) for s in FOLD]), space([len(s) for s in FFRAG])
NF = NFO * NFF * len(ALS)
FLO, FHI = rt.shard_range(NF)


def h_fragment(case: int) -> bool:
    """
    pre: FLO <= case < FHI
    post: _ == True
    """
    c = pick(case, FHI, FLO)
    with NoTracing():
        io, iff, ia = digits(c, [NFO, NFF, len(ALS)])
        old, frag, acl = _doc_from(FOLD, io), _doc_from(FFRAG, iff), ALS[ia]
        ok, detail, fp, changed = check_fragment(old, frag, acl)
        rt.record({"old": old, "fragment": frag, "acl": acl}, ok, [io, iff, ia] if changed else None, detail=detail, fingerprint=fp)
    return ok


CH_ACL = [["/a"], ["/a/x"], ["/*"], ["/t~0ilde/*"], ["/k~1ey", "/s"]]
CHN = 2 if rt.TIER == "quick" else 6
NCH = NFO * CHN * len(CH_ACL) * CHN * len(CH_ACL) * 4
CLO, CHI = rt.shard_range(NCH)


def h_chain(case: int) -> bool:
    """
    pre: CLO <= case < CHI
    post: _ == True
    """
    c = pick(case, CHI, CLO)
    with NoTracing():
        io, i1, a1, i2, a2, pr = digits(c, [NFO, CHN, len(CH_ACL), CHN, len(CH_ACL), 4])
        old = _doc_from(FOLD, io)
        f1 = _doc_from(FFRAG, (i1 * 37) % NFF)
        f2 = _doc_from(FFRAG, (i2 * 53 + 5) % NFF)
        prio1, prio2 = [(1, 1), (2, 1), (1, 2), (0, 3)][pr]
        ok, detail, fp, changed = check_chain(old, f1, CH_ACL[a1], prio1, f2, CH_ACL[a2], prio2)
        rt.record({"old": old, "f1": f1, "acl1": CH_ACL[a1], "prio1": prio1, "f2": f2, "acl2": CH_ACL[a2], "prio2": prio2},
                  ok, [io, i1, a1, i2, a2, pr] if changed else None, detail=detail, fingerprint=fp)
    return ok


# ---------------------------------------------------------------- reload priorities as unbounded symbolic integers
PR_CASES = [
    # (old idx, f1 idx, acl1, f2 idx, acl2)  ->  which generators change the document
    (0, 5, 0, 9, 2), (3, 5, 0, 5, 0), (7, 1, 1, 2, 3), (12, 0, 2, 6, 0), (20, 9, 2, 9, 2), (33, 14, 0, 3, 1), (41, 2, 4, 8, 2), (63, 30, 2, 0, 0),
]


def h_chain_prio(p1: int, p2: int, sel: int) -> bool:
    """
    pre: 0 <= sel < len(PR_CASES)
    pre: p1 >= 0 and p2 >= 0
    post: _ == True
    """
    # new_json_fragment_files with two generators on one file: the reload command is the one of the generator with the
    # highest EFFECTIVE priority (its own if it changed the document, 0 otherwise), the later generator on ties
    from annet.annlib import jsontools
    from annet.generators.result import RunGeneratorResult
    from annet.types import GeneratorJSONFragmentResult
    from crosshair.core import deep_realize
    k = pick(sel, len(PR_CASES))
    with NoTracing():
        io, i1, a1, i2, a2 = PR_CASES[k]
        old = _doc_from(FOLD, io % NFO)
        f1 = _doc_from(FFRAG, i1 % NFF)
        f2 = _doc_from(FFRAG, i2 % NFF)
        step1 = jsontools.apply_json_fragment(copy.deepcopy(old), f1, CH_ACL[a1])
        want = jsontools.apply_json_fragment(copy.deepcopy(step1), f2, CH_ACL[a2])
        ch1, ch2 = step1 != old, want != step1
    res = RunGeneratorResult()
    for i, (f, acl, prio) in enumerate(((f1, CH_ACL[a1], p1), (f2, CH_ACL[a2], p2))):
        res.add_json_fragment(GeneratorJSONFragmentResult(
            name="g%d" % i, tags=[], path="/etc/x.json", acl=acl, acl_safe=acl, config=copy.deepcopy(f),
            reload="reload-%d" % i, perf=None, reload_prio=prio))
    cfg, reload_cmd = res.new_json_fragment_files({"/etc/x.json": copy.deepcopy(old)})["/etc/x.json"]
    e1 = p1 if ch1 else 0
    e2 = p2 if ch2 else 0
    want_reload = "reload-0" if e1 > e2 else "reload-1"
    ok = cfg == want and reload_cmd == want_reload
    cs = None
    if not ok:
        cs = deep_realize({"sel": k, "p1": p1, "p2": p2})
    with NoTracing():
        rt.record(cs or {"sel": k, "path": rt.paths}, ok, ["prio", k, rt.paths] if (ch1 or ch2) else None,
                  detail={"reload": str(reload_cmd), "want": want_reload}, fingerprint="C13:chain:reload-priority")
    return ok


def h_twin(case: int) -> bool:
    """
    pre: 0 <= case < NDOC
    post: _ == True
    """
    # reachability twin: "make_patch never needs more than one operation" must be refuted
    c = pick(case, NDOC)
    with NoTracing():
        from annet.annlib import jsontools
        new = _doc_from(PSPACE, c)
        ok = len(jsontools.make_patch({}, new)) <= 1
        rt.record({"new": new}, ok, c)
    return ok


def plan(tier):
    q = tier == "quick"
    return [
        dict(name="patch", func="h_patch", shards=16 if q else 48, timeout=250 if q else 2500),
        dict(name="fragment", func="h_fragment", shards=12 if q else 32, timeout=250 if q else 2500),
        dict(name="chain", func="h_chain", shards=12 if q else 32, timeout=250 if q else 2500),
    ] + [
        # jsonpatch iterates over sets of keys: the operations it emits (and whether its move optimisation goes wrong)
        # depend on the interpreter's string hash seed, so the patch round trip is explored under several seeds
        dict(name="patch[hashseed=%d]" % hs, func="h_patch", shards=8 if q else 24, timeout=250 if q else 2500,
             env={"PYTHONHASHSEED": hs}) for hs in ((1, 2, 3) if q else (1, 2, 3, 4))
    ] + [
        dict(name="chain[hashseed=2]", func="h_chain", shards=8 if q else 24, timeout=250 if q else 2500, env={"PYTHONHASHSEED": 2}),
        dict(name="chain.symbolic-prios", func="h_chain_prio", shards=1, timeout=200 if q else 600,
             bound="reload priorities: unbounded symbolic non-negative ints"),
        dict(name="twin", func="h_twin", shards=1, timeout=60, expect="refuted"),
    ]


def replay(obligation, case):
    if obligation == "chain.symbolic-prios":
        io, i1, a1, i2, a2 = PR_CASES[case["sel"]]
        ok, detail, fp, _ = check_chain(_doc_from(FOLD, io % NFO), _doc_from(FFRAG, i1 % NFF), CH_ACL[a1], case["p1"],
                                        _doc_from(FFRAG, i2 % NFF), CH_ACL[a2], case["p2"])
        return {"ok": ok, "detail": detail, "fingerprint": "C13:chain:reload-priority"}
    if obligation == "patch":
        ok, detail, fp, _ = check_patch(case["old"], case["new"])
    elif obligation == "fragment":
        ok, detail, fp, _ = check_fragment(case["old"], case["fragment"], case["acl"])
    else:
        ok, detail, fp, _ = check_chain(case["old"], case["f1"], case["acl1"], case["prio1"], case["f2"], case["acl2"], case["prio2"])
    return {"ok": ok, "detail": detail, "fingerprint": fp if not ok else None}
