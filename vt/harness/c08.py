"""C08 — ordering follows the ordering rulebook and only permutes lines.  See DESIGN.md §C08."""
import collections
import copy
import os
import re
from collections import OrderedDict as odict

from crosshair.tracers import NoTracing

from vt import rt, corpus
from vt.common import pick, digits, make_hw, make_rb, StubDevice, tree_to_json
from vt.space import S, P, count, unrank
from vt.oracles.rule import ref_rule_regex
from vt.oracles import device as refdev

META = {
    "property_id": "C08",
    "level": "exploration",
    "engine_name": "E-CH+E-Z3",
    "technique": "z3 disjointness of sibling ordering-rule languages (compiled regexes) + CrossHair/z3-certified exhaustion of "
                 "bounded (ordering rulebook, old, new) spaces through make_patch / Orderer against RefOrder; shipped *.order files "
                 "over corpus pairs and order_config over corpus trees",
    "functions": [
        "annet/annlib/patching.py:Orderer.get_order", "annet/annlib/patching.py:Orderer.order_config",
        "annet/annlib/patching.py:Orderer.rule_weight", "annet/annlib/patching.py:make_patch", "annet/annlib/patching.py:PatchTree.sort",
        "annet/annlib/rbparser/ordering.py:compile_ordering_text", "annet/annlib/rbparser/ordering.py:_compile_ordering",
        "annet/annlib/rulebook/common.py:undo_redo", "annet/api/__init__.py:_diff_and_patch", "annet/patching.py:Orderer.from_hw",
        "annet/rulebook/texts/*.order",
    ],
    "rule": "synthetic: one path per (ordering text, old, new) index, every sibling command pair compared with the reference rank; "
            "shipped: one path per (vendor, corpus pair, removed top-level row); order_config: one path per (vendor, corpus tree); "
            "non-trivial = at least two sibling commands with different reference ranks / a non-identity permutation",
    "explanation": "",
    "assumptions": ["synthetic ordering rulebooks have pairwise disjoint sibling languages (decided by z3 on the compiled regexes)",
                    "RefOrder: rank = index of the matching ordering rule for direct commands (0 when none), the negated index for "
                    "commands matching only through the negated form, the positive index when an %order_reverse rule pins them; rules with a %scope take part only in that scope (patches: 'patch', generated configurations: none)"],
    "outside": ["overlapping sibling ordering rules (best-match weight heuristic)", "ref_insert with a non-empty RefTracker (exercised in C20)"],
    "bounds": {},
}

# ---------------------------------------------------------------- synthetic ordering rulebooks + patching family
PATCH_TEXT = """
a
x *
y *
m
u * %logic=common.undo_redo
b *
    c
    d *
    g *
g * %global
"""

ORDERS = [
    # 0: plain sequence with a nested block
    """
x *
a
b *
    d *
    c
y *
""",
    # 1: pinned negated command + global entry
    """
y *
undo x * %order_reverse
b *
    c
    d *
g * %global
a
x *
""",
    # 2: depth, reverse pin inside a block, unmentioned rows (m, u)
    """
b *
    undo c %order_reverse
    g *
    d *
    c
a
""",
    # 3: empty ordering
    "",
    # 4: only %global entries: they must reach the children of blocks no rule mentions
    """
d * %global
g * %global
c %global
x *
""",
    # 5: a rule written in negated form without %order_reverse: it also ranks the positive command it negates
    """
y *
a
x *
undo u k1 *
""",
    # 6: a rule that orders patches only (%scope=patch): generated configurations are ordered as if it were not there
    """
y *
a
m %scope=patch
x *
""",
]

SLOTS_Q = [S(["a"]), S(["x k1"]), S(["y k1"]), S(["m"]), S(["u k1 v1", "u k1 v2"]),
           S(["b k1"], [S(["c v1"]), S(["d k1"]), S(["g 1"])])]
SLOTS_T = [S(["a", "a v"]), S(["x k1"]), S(["x k2"]), S(["y k1", "y k1 v"]), S(["m"]), S(["u k1 v1", "u k1 v2"]),
           S(["b k1"], [S(["c v1", "c v2"]), S(["d k1"]), S(["g 1"])]), S(["g 2"])]
SLOTS = SLOTS_Q if rt.TIER == "quick" else SLOTS_T
# order_config only: a block no ordering rule mentions whose children look like commands of the enclosing level
SLOTS_OC = SLOTS + [S(["w 1"], [S(["y k9"]), S(["a"]), S(["x k9"])])]
VENDOR = "huawei"
PREFIX = "undo"


class ORule:
    def __init__(self, row, params, children):
        self.row = row
        self.order_reverse = params.get("order_reverse", "0") not in ("0", "")
        self.is_global = params.get("global", "0") not in ("0", "")
        # %scope=patch: the rule orders patches only, never generated configurations
        self.scope = [x for x in params["scope"].split(",") if x] if params.get("scope") else None
        self.children = children
        s, f = ref_rule_regex(row)
        self.rx = re.compile(s, f)
        rrow = row[len(PREFIX) + 1:] if row.startswith(PREFIX + " ") else PREFIX + " " + row
        s, f = ref_rule_regex(rrow)
        self.rrx = re.compile(s, f)


def parse_order(text):
    rules = refdev.parse_rules(text)

    def conv(rs):
        return [ORule(r.row, r.params, conv(r.children)) for r in rs]
    return conv(rules)


def ref_rank(level, row, scope=None):
    """(rank, child level).  level: list[ORule] (siblings incl. inherited globals, in file order).
    A removal command matched directly by an %order_reverse rule is pinned at that rule's (positive) index and this takes
    precedence over matching a plain rule through its negated form.  The child level lists, in file order, every %global
    sibling and the children of the matched rule."""
    direct = not row.startswith(PREFIX + " ")
    pinned = None
    # rules limited to another scope do not take part (they keep their position number)
    level = [r if (r.scope is None or scope in r.scope) else None for r in level]
    if not direct:
        for i, r in enumerate(level):
            if r is not None and r.order_reverse and r.rx.match(row):
                pinned = i
                break
    rank = 0
    child = []
    hit = False
    for i, r in enumerate(level):
        if r is None:
            continue
        if r.is_global:
            child.append(r)
        if not r.order_reverse and (r.rx.match(row) or r.rrx.match(row)):
            if hit:
                raise ValueError("ambiguous ordering for %r" % row)
            hit = True
            if pinned is None:
                rank = i if direct else -i
            child.extend(r.children)
        elif pinned == i:
            rank = i
            child = []
    return rank, child


_ctx = {}


def ctx(oi):
    if oi not in _ctx:
        from annet.vendors import registry_connector
        hw = make_hw(VENDOR)
        v = registry_connector.get()[hw.vendor]
        _ctx[oi] = {"hw": hw, "dev": StubDevice(hw), "rb": make_rb(PATCH_TEXT, hw.vendor, ordering_text=ORDERS[oi]),
                    "fmt": v.make_formatter(), "exit": v.exit, "order": parse_order(ORDERS[oi])}
    return _ctx[oi]


def walk_patch(pt, level, exit_word, path, out):
    """check sibling order against RefOrder; collect (path,row) multiset"""
    items = [(it.row, it.child) for it in pt.itms]
    ranks = []
    for row, child in items:
        if row == exit_word:
            continue
        rk, chl = ref_rank(level, row, "patch")
        ranks.append((rk, row, child, chl))
        out.append(path + (row,))
    for i in range(len(ranks)):
        for j in range(i + 1, len(ranks)):
            if ranks[i][0] > ranks[j][0]:
                return ("rank-order-violated", path, ranks[i][1], ranks[i][0], ranks[j][1], ranks[j][0])
    # removal before re-creation for one (rule,key): undo_redo rule `u *`
    seen_add = {}
    for rk, row, child, chl in ranks:
        m = re.match(r"(undo )?u (\S+)", row)
        if m:
            if m.group(1) and seen_add.get(m.group(2)):
                return ("undo-after-readd", path, row)
            if not m.group(1):
                seen_add[m.group(2)] = True
    for rk, row, child, chl in ranks:
        if child is not None:
            bad = walk_patch(child, chl, exit_word, path + (row,), out)
            if bad:
                return bad
    return None


def check_synth(oi, old, new):
    from annet import api
    from annet.annlib import patching
    c = ctx(oi)
    base = {"ordering": ORDERS[oi], "old": tree_to_json(old), "new": tree_to_json(new)}
    try:
        _, patch = api._diff_and_patch(c["dev"], old, new, None, None, False, rb=c["rb"])
    except Exception as e:  # noqa
        return False, dict(base, error=repr(e)), "exception:%s" % type(e).__name__, False
    rows = []
    try:
        bad = walk_patch(patch, c["order"], c["exit"], (), rows)
    except ValueError as e:
        return False, dict(base, error=str(e)), "HARNESS:ambiguous-ordering", False
    if bad:
        return False, dict(base, violation=bad, patch=c["fmt"].patch(patch)), bad[0], True
    # only a permutation: compare with the unsorted patch
    saved = patching.PatchTree.sort
    patching.PatchTree.sort = lambda self: None
    try:
        _, raw = api._diff_and_patch(c["dev"], old, new, None, None, False, rb=c["rb"])
    finally:
        patching.PatchTree.sort = saved
    rows2 = []

    def collect(pt, path):
        for it in pt.itms:
            rows2.append(path + (it.row,))
            if it.child is not None:
                collect(it.child, path + (it.row,))
    collect(raw, ())
    rows_all = []

    def collect2(pt, path):
        for it in pt.itms:
            rows_all.append(path + (it.row,))
            if it.child is not None:
                collect2(it.child, path + (it.row,))
    collect2(patch, ())
    if collections.Counter(rows_all) != collections.Counter(rows2):
        return False, dict(base, sorted=sorted(rows_all), unsorted=sorted(rows2)), "sorting-is-not-a-permutation", True
    distinct_ranks = len(set(ref_rank(c["order"], r[0], "patch")[0] for r in rows if len(r) == 1)) > 1
    return True, None, None, distinct_ranks


N = count(SLOTS)
NSTEP = 11 if rt.TIER == "quick" else 251
NNEW = (N + NSTEP - 1) // NSTEP
NS = len(ORDERS) * N * NNEW
SLO, SHI = rt.shard_range(NS)


def h_synth(case: int) -> bool:
    """
    pre: SLO <= case < SHI
    post: _ == True
    """
    c = pick(case, SHI, SLO)
    with NoTracing():
        oi, i, j = digits(c, [len(ORDERS), N, NNEW])
        j = (j * NSTEP + i) % N
        ok, detail, kind, nt = check_synth(oi, unrank(SLOTS, i), unrank(SLOTS, j))
        rt.record({"order": oi, "i": i, "j": j, "tier": rt.TIER}, ok, [oi, i, j] if nt else None, detail=detail,
                  fingerprint="C08:synth:%s" % kind)
    return ok


# ---------------------------------------------------------------- E-Z3: sibling disjointness (precondition decided, not assumed)
def z_disjoint():
    import z3
    from vt import rx2z3 as rx
    from annet.annlib.rbparser.ordering import compile_ordering_text
    from annet import rulebook
    S_ = rx.Solver(timeout_ms=10000)
    dom = rx.row_domain()
    synth_fail = 0
    shipped_overlaps = {}

    def walk(rb, inherited, tag, sink):
        items = list(rb.items()) + inherited
        langs = []
        for raw, rule in items:
            try:
                langs.append((raw, rx.match_lang(rule["attrs"]["direct_regexp"]), rule))
            except rx.Unsupported:
                continue
        for a in range(len(langs)):
            for b in range(a + 1, len(langs)):
                r, m = S_.check(z3.InRe(S_.x, dom), z3.InRe(S_.x, langs[a][1]), z3.InRe(S_.x, langs[b][1]))
                if r == "sat":
                    sink.append((langs[a][0], langs[b][0], rx.z3_unescape(m)))
        glob = [(raw, rule) for raw, rule in items if rule["attrs"]["global"]]
        for raw, rule in rb.items():
            if rule["children"]:
                walk(rule["children"], glob, tag, sink)
    for oi, text in enumerate(ORDERS):
        sink = []
        walk(compile_ordering_text(text, VENDOR), [], "synthetic%d" % oi, sink)
        ok = not sink
        rt.record({"ordering": "synthetic%d" % oi, "overlaps": sink[:3]}, ok, ["synthetic", oi], fingerprint="C08:HARNESS:grammar-overlap")
        synth_fail += 0 if ok else 1
    if rt.TIER != "quick":
        for v in ("huawei", "cisco", "arista", "nexus", "iosxr", "aruba", "b4com", "routeros"):
            sink = []
            try:
                walk(rulebook.get_rulebook(make_hw(v))["ordering"], [], v, sink)
            except Exception as e:  # noqa
                sink = [("error", repr(e), "")]
            shipped_overlaps[v] = len(sink)
            rt.record({"ordering": v + ".order", "overlapping_sibling_pairs": len(sink), "examples": sink[:3]}, True, ["shipped", v])
    return {"verdict": "harness_error" if synth_fail else "confirmed", "queries": S_.queries, "solver_s": round(S_.solver_s, 3),
            "counters": {"shipped_overlapping_pairs_" + k: v for k, v in shipped_overlaps.items()}}


# ---------------------------------------------------------------- shipped *.order: independence of unrelated rows
C = corpus.load()
POOL = {}
for _v in sorted(C):
    _seen = odict()
    for _t in C[_v]["trees"]:
        for _r, _sub in _t.items():
            _seen.setdefault(_r, _sub)
    POOL[_v] = list(_seen.items())
KV = 6
SH = [(_v, _i, _j, _k) for _v in sorted(C) for (_i, _j) in C[_v]["pairs"] for _k in range(KV)]
HLO, HHI = rt.shard_range(len(SH))


def _paths_of(hw, old, new):
    from annet import api
    from annet.vendors import registry_connector
    dev = StubDevice(hw)
    _, p = api._diff_and_patch(dev, copy.deepcopy(old), copy.deepcopy(new), None, None, False)
    return [tuple(x) for x in registry_connector.get().match(hw).make_formatter().cmd_paths(p)]


def check_shipped(v, i, j, k):
    """the relative order of the commands of patch(old,new) must not change when an UNRELATED top-level row (taken from
    another sample of the same vendor) is present on both sides (k%3==0), only in old (1) or only in new (2)"""
    from annet.vendors import registry_connector
    from annet.annlib.patching import _match_row_to_rules
    from annet import rulebook
    hw = C[v]["hw"]
    old, new = C[v]["trees"][i], C[v]["trees"][j]
    pool = POOL[v]
    victim, vsub = pool[(i * 7 + j * 3 + k * 11) % len(pool)]
    mode = k % 3
    if victim in old or victim in new:
        return True, None, "outside:victim-present", False
    try:
        p0 = _paths_of(hw, old, new)
        rev = registry_connector.get().match(hw).reverse
        prules = rulebook.get_rulebook(hw)["patching"]

        def slot(row):
            m, _ = _match_row_to_rules(row, prules)
            if not m:
                return None
            custom = m["attrs"]["logic"].__module__ != "annet.annlib.rulebook.common" or \
                m["attrs"]["diff_logic"].__module__ != "annet.annlib.rulebook.common"
            return (m["raw_rule"], None if custom else m["key"])
        vs = slot(victim)
        if vs is None:
            return True, None, "outside:victim-unknown-to-rulebook", False
        for t in (old, new):
            for row in t:
                sr = slot(row)
                if sr is not None and (sr == vs or (sr[0] == vs[0] and (vs[1] is None or sr[1] is None))):
                    return True, None, "outside:victim-related", False
        o1, n1 = odict(old), odict(new)
        if mode in (0, 1):
            o1[victim] = copy.deepcopy(vsub)
        if mode in (0, 2):
            n1[victim] = copy.deepcopy(vsub)
        p1 = _paths_of(hw, o1, n1)
    except Exception as e:  # noqa
        return True, None, "outside:exception:%s" % type(e).__name__, False
    s0 = set(p0)
    common1 = [p for p in p1 if p in s0]
    missing = [p for p in p0 if p not in set(p1)]
    if missing:
        return False, {"vendor": v, "pair": [i, j], "extra_row": victim, "mode": mode, "lost_commands": missing[:6]}, \
            "commands-depend-on-unrelated-row", True
    if common1 != p0:
        pos = {p: n for n, p in enumerate(common1)}
        inv = None
        for a in range(len(p0) - 1):
            if pos[p0[a]] > pos[p0[a + 1]]:
                inv = (p0[a], p0[a + 1])
                break
        return False, {"vendor": v, "pair": [i, j], "extra_row": victim, "mode": mode, "inversion": inv,
                       "without_row": p0[:14], "with_row": p1[:20]}, "order-depends-on-unrelated-row", True
    return True, None, None, len(p0) > 1


def h_shipped(case: int) -> bool:
    """
    pre: HLO <= case < HHI
    post: _ == True
    """
    c = pick(case, HHI, HLO)
    with NoTracing():
        v, i, j, k = SH[c]
        ok, detail, kind, nt = check_shipped(v, i, j, k)
        rt.record({"vendor": v, "i": i, "j": j, "k": k}, ok, [v, i, j, k] if nt else None, detail=detail,
                  fingerprint="C08:shipped:%s:%s" % (v, kind))
    return ok


# ---------------------------------------------------------------- order_config
OC = [(v, i) for v in sorted(C) for i in range(len(C[v]["trees"]))]
N_OC = count(SLOTS_OC)
OLO, OHI = rt.shard_range(len(OC) + len(ORDERS) * N_OC)


def _ms(t):
    return sorted((k, _ms(v)) for k, v in (t or {}).items())


def _seq(t):
    return [(k, _seq(v)) for k, v in (t or {}).items()]


def check_order_config(orderer, tree, mentioned):
    t0 = copy.deepcopy(tree)
    try:
        o1 = orderer.order_config(tree)
    except Exception as e:  # noqa
        return False, {"error": repr(e)}, "exception:%s" % type(e).__name__, False
    if _seq(tree) != _seq(t0):
        return False, {"tree": tree_to_json(t0)}, "input-mutated", True
    if _ms(o1) != _ms(t0):
        return False, {"tree": tree_to_json(t0), "ordered": tree_to_json(o1)}, "order_config-not-a-permutation", True
    o2 = orderer.order_config(copy.deepcopy(o1))
    if _seq(o2) != _seq(o1):
        return False, {"once": tree_to_json(o1), "twice": tree_to_json(o2)}, "order_config-not-idempotent", True
    # the ordering of a block does not depend on its siblings
    for row, sub in t0.items():
        if sub:
            alone = orderer.order_config(odict([(row, copy.deepcopy(sub))]))
            if _seq(alone[row]) != _seq(o1[row]):
                return False, {"row": row, "with_siblings": tree_to_json(o1[row]), "alone": tree_to_json(alone[row])}, \
                    "block-order-depends-on-siblings", True
    if mentioned is not None:
        bad = _rank_sorted(o1, mentioned)
        if bad:
            return False, {"tree": tree_to_json(t0), "ordered": tree_to_json(o1), "violation": bad}, "order_config-ignores-rule-rank", True
    bad = _unmentioned_stable(orderer, t0, o1)
    if bad:
        from annet.vendors import registry_connector
        rev = registry_connector.get()[orderer.vendor].reverse
        un, seq = bad
        neg = lambda rows: [r for r in rows if r.startswith(rev + " ")]
        pos = lambda rows: [r for r in rows if not r.startswith(rev + " ")]
        kind = "unmentioned-negated-rows-float-first" if (neg(un) == neg(seq) and pos(un) == pos(seq)) else "unmentioned-rows-reordered"
        return False, {"input_order": un, "output_order": seq}, kind, True
    return True, None, None, _seq(o1) != _seq(t0)


def _rank_sorted(o, level):
    """RefOrder on a generated configuration: sibling rows appear by non-decreasing reference rank"""
    prev = None
    for row in o:
        rk, child = ref_rank(level, row)
        if prev is not None and rk < prev[0]:
            return [prev[1], prev[0], row, rk]
        prev = (rk, row)
        if o[row]:
            bad = _rank_sorted(o[row], child)
            if bad:
                return bad
    return None


def _unmentioned_stable(orderer, t, o):
    from annet.vendors import registry_connector
    from annet.annlib.patching import Orderer
    rev = registry_connector.get()[orderer.vendor].reverse
    un = []
    subs = {}
    for row in t:
        order, direct, rb, rule = orderer.get_order(row, not row.startswith(rev))
        subs[row] = rb
        if rule == "" or rule is None:
            un.append(row)
    seq_o = [r for r in o if r in set(un)]
    if seq_o != un:
        return [un, seq_o]
    for row in t:
        if t[row]:
            bad = _unmentioned_stable(Orderer(subs[row], orderer.vendor), t[row], o[row])
            if bad:
                return bad
    return None


def h_order_config(case: int) -> bool:
    """
    pre: OLO <= case < OHI
    post: _ == True
    """
    c = pick(case, OHI, OLO)
    with NoTracing():
        from annet.patching import Orderer
        if c < len(OC):
            v, i = OC[c]
            orderer = Orderer.from_hw(C[v]["hw"])
            ok, detail, kind, nt = check_order_config(orderer, C[v]["trees"][i], None)
            cs = {"vendor": v, "tree": i}
            fp = "C08:order_config:%s" % kind if kind == "unmentioned-negated-rows-float-first" else "C08:order_config:%s:%s" % (v, kind)
        else:
            k = c - len(OC)
            oi, ti = k % len(ORDERS), k // len(ORDERS)
            cx = ctx(oi)
            orderer = Orderer(cx["rb"]["ordering"], cx["hw"].vendor)
            ok, detail, kind, nt = check_order_config(orderer, unrank(SLOTS_OC, ti), cx["order"])
            cs = {"order": oi, "tree_idx": ti, "tier": rt.TIER}
            fp = "C08:order_config:synthetic:%s" % kind
        rt.record(cs, ok, cs if nt else None, detail=detail, fingerprint=fp)
    return ok


def h_twin(case: int) -> bool:
    """
    pre: 0 <= case < N * N
    post: _ == True
    """
    # reachability twin: "sorting never changes the emitted order" must be refuted
    c = pick(case, N * N)
    with NoTracing():
        from annet import api
        from annet.annlib import patching
        cx = ctx(0)
        old, new = unrank(SLOTS, c % N), unrank(SLOTS, c // N)
        _, p = api._diff_and_patch(cx["dev"], old, new, None, None, False, rb=cx["rb"])
        saved = patching.PatchTree.sort
        patching.PatchTree.sort = lambda self: None
        try:
            _, raw = api._diff_and_patch(cx["dev"], old, new, None, None, False, rb=cx["rb"])
        finally:
            patching.PatchTree.sort = saved
        ok = [i.row for i in p.itms] == [i.row for i in raw.itms]
        rt.record({"c": c}, ok, c)
    return ok


def plan(tier):
    q = tier == "quick"
    return [
        dict(name="siblings.disjoint", func="z_disjoint", kind="py", shards=1, timeout=600 if q else 2400),
        dict(name="synthetic", func="h_synth", shards=16 if q else 64, timeout=280 if q else 3000),
        dict(name="shipped.independence", func="h_shipped", shards=12, timeout=280 if q else 1200),
        dict(name="order_config", func="h_order_config", shards=8, timeout=280 if q else 1200),
        dict(name="twin", func="h_twin", shards=1, timeout=100, expect="refuted"),
    ]


def replay(obligation, case):
    if obligation == "synthetic":
        slots = SLOTS_Q if case.get("tier", "quick") == "quick" else SLOTS_T
        ok, detail, kind, _ = check_synth(case["order"], unrank(slots, case["i"]), unrank(slots, case["j"]))
        return {"ok": ok, "detail": detail, "fingerprint": "C08:synth:%s" % kind}
    if obligation.startswith("shipped"):
        ok, detail, kind, _ = check_shipped(case["vendor"], case["i"], case["j"], case["k"])
        return {"ok": ok, "detail": detail, "fingerprint": "C08:shipped:%s:%s" % (case["vendor"], kind)}
    if obligation == "order_config":
        from annet.patching import Orderer
        if "vendor" in case:
            v = case["vendor"]
            ok, detail, kind, _ = check_order_config(Orderer.from_hw(C[v]["hw"]), C[v]["trees"][case["tree"]], None)
            return {"ok": ok, "detail": detail, "fingerprint": "C08:order_config:%s" % kind if kind == "unmentioned-negated-rows-float-first" else "C08:order_config:%s:%s" % (v, kind)}
        slots = (SLOTS_Q if case.get("tier", "quick") == "quick" else SLOTS_T) + SLOTS_OC[-1:]
        cx = ctx(case["order"])
        ok, detail, kind, _ = check_order_config(Orderer(cx["rb"]["ordering"], cx["hw"].vendor), unrank(slots, case["tree_idx"]), cx["order"])
        return {"ok": ok, "detail": detail, "fingerprint": "C08:order_config:synthetic:%s" % kind}
    return {"ok": True, "detail": None, "fingerprint": None}
