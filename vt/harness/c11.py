"""C11 — VLAN-list commands change exactly the VLANs that differ.  See DESIGN.md §C11."""
import os
import re
from collections import OrderedDict as odict

from crosshair.tracers import NoTracing

from vt import rt
from vt.common import pick, digits, make_hw, StubDevice, tree_to_json

META = {
    "property_id": "C11",
    "level": "exploration",
    "technique": "CrossHair/z3-certified exhaustion of (rule, S_old split, S_new split) index spaces through the shipped "
                 "rulebooks' real diff/patch pipeline, commands executed on a reference VLAN-set model",
    "functions": [
        "annet/rulebook/huawei/vlandb.py:_process_vlandb", "annet/rulebook/huawei/vlandb.py:multi_all",
        "annet/rulebook/huawei/vlandb.py:multi", "annet/rulebook/huawei/vlandb.py:single",
        "annet/rulebook/huawei/vlandb.py:vlan_diff", "annet/rulebook/huawei/vlandb.py:_parse_vlancfg",
        "annet/rulebook/cisco/vlandb.py:_process_vlandb", "annet/rulebook/cisco/vlandb.py:swtrunk",
        "annet/rulebook/cisco/vlandb.py:simple", "annet/annlib/lib.py:collapse_vlandb",
        "annet/annlib/lib.py:huawei_expand_vlandb", "annet/annlib/lib.py:cisco_expand_vlandb",
        "annet/api/__init__.py:_diff_and_patch", "annet/rulebook/texts/huawei.rul", "annet/rulebook/texts/cisco.rul",
        "annet/rulebook/texts/nexus.rul",
    ],
    "rule": "one path per (rule, old set + split, new set + split); non-trivial = S_old != S_new; distinct by the decoded lines",
    "explanation": "",
    "assumptions": [
        "a VLAN set is written as its sorted range list cut into consecutive config lines (a partition: lines of one side are disjoint)",
        "RefVlan device model: '<prefix> <list>' adds, 'undo|no <prefix> [remove] <list>' removes, 'undo <prefix> all' / '<prefix> none' clears",
        "VLAN numbers are concrete members of a small universe (symbolic numbers are realised by set hashing; a CrossHair probe of the string round trip with 4 symbolic ints did not finish in 100 s)",
        "Cisco-style lists are tried with and without a blank after each comma on the old side; the plain 'switchport trunk allowed vlan <list>' form REPLACES the list",
    ],
    "outside": ["overlapping lines", "cisco vlan blocks with children",
                "universes larger than stated"],
    "bounds": {"quick": "universe {2,3,4,6,4094}, <=2 lines per side, 6 rules + collapse/expand over all subsets of an 8-element universe",
               "thorough": "universe {2,3,4,6,7,4094}, <=3 lines per side"},
}

U_QUICK = [2, 3, 4, 6, 4094]
U_THOR = [2, 3, 4, 6, 7, 4094]
U = U_QUICK if rt.TIER == "quick" else U_THOR
MAXLINES = 2 if rt.TIER == "quick" else 3


# ---------------------------------------------------------------- reference helpers (independent of annet.lib)
def ref_ranges(s):
    out = []
    for v in sorted(s):
        if out and out[-1][1] == v - 1:
            out[-1][1] = v
        else:
            out.append([v, v])
    return out


def fmt_huawei(ranges):
    return " ".join(("%d to %d" % (a, b)) if a != b else str(a) for a, b in ranges)


def _fmt_cisco(ranges):
    return ",".join(("%d-%d" % (a, b)) if a != b else str(a) for a, b in ranges)


def parse_huawei(text):
    toks = text.split()
    s = set()
    i = 0
    while i < len(toks):
        if i + 2 < len(toks) and toks[i + 1] == "to":
            s.update(range(int(toks[i]), int(toks[i + 2]) + 1))
            i += 3
        else:
            s.add(int(toks[i]))
            i += 1
    return s


def parse_cisco(text):
    s = set()
    for part in text.split(","):
        part = part.strip()
        if "-" in part:
            a, b = part.split("-")
            s.update(range(int(a), int(b) + 1))
        else:
            s.add(int(part))
    return s


def splits(s, maxlines):
    """all ways to cut the sorted range list of s into <= maxlines consecutive non-empty lines"""
    r = ref_ranges(s)
    if not r:
        return [[]]
    out = []

    def rec(start, acc):
        if len(acc) == maxlines - 1 or start == len(r):
            if start < len(r):
                out.append(acc + [r[start:]])
            elif acc:
                out.append(acc)
            return
        for cut in range(start + 1, len(r) + 1):
            if cut == len(r):
                out.append(acc + [r[start:]])
            else:
                rec(cut, acc + [r[start:cut]])
    rec(0, [])
    # dedupe
    seen = []
    for o in out:
        if o not in seen:
            seen.append(o)
    return seen


def configs(universe, maxlines):
    out = []
    for mask in range(1 << len(universe)):
        s = set(universe[i] for i in range(len(universe)) if mask >> i & 1)
        for sp in splits(s, maxlines):
            out.append((sorted(s), sp))
    return out


CFGS = configs(U, MAXLINES)

RULES = {
    # name: (vendor, block path, prefix, style, first-line / continuation formatter)
    "trunk": ("huawei", ["interface GE1/0/1"], "port trunk allow-pass vlan", "huawei"),
    "hybrid": ("huawei", ["interface GE1/0/1"], "port hybrid tagged vlan", "huawei"),
    "batch": ("huawei", [], "vlan batch", "huawei"),
    "stp": ("huawei", ["stp region-configuration"], "instance 1 vlan", "huawei-single"),
    "cvlan": ("nexus", [], "vlan", "cisco"),
    "swtrunk": ("cisco", ["interface GigabitEthernet1/0/1"], "switchport trunk allowed vlan", "cisco-add"),
    "swtrunk-nexus": ("nexus", ["interface Ethernet1/1"], "switchport trunk allowed vlan", "cisco-add"),
}
RULE = os.environ.get("VT_RULE", "trunk")


def build_tree(rule, cfg, blank=False):
    """blank: Cisco-style lists written with a blank after each comma, as some devices print them"""
    vendor, path, prefix, style = RULES[rule]
    fmt_cisco = (lambda rs: _fmt_cisco(rs).replace(",", ", ")) if blank else _fmt_cisco
    _, lines = cfg
    rows = []
    for i, rs in enumerate(lines):
        if style.startswith("huawei"):
            rows.append("%s %s" % (prefix, fmt_huawei(rs)))
        elif style == "cisco-add" and i > 0:
            rows.append("%s add %s" % (prefix, fmt_cisco(rs)))
        else:
            rows.append("%s %s" % (prefix, fmt_cisco(rs)))
    t = odict()
    cur = t
    for p in path:
        cur[p] = odict()
        cur = cur[p]
    for r in rows:
        cur[r] = odict()
    if path and rule in ("swtrunk", "swtrunk-nexus"):
        cur["switchport mode trunk"] = odict()
        cur.move_to_end("switchport mode trunk", last=False)
    return t


_ctx = {}


def ctx(vendor):
    if vendor not in _ctx:
        from annet.vendors import registry_connector
        from annet import rulebook
        hw = make_hw(vendor)
        _ctx[vendor] = (hw, StubDevice(hw), rulebook.get_rulebook(hw), registry_connector.get().match(hw).make_formatter(),
                        registry_connector.get().match(hw).reverse)
    return _ctx[vendor]


def simulate(rule, cmds, s_old):
    """RefVlan: execute command rows on the VLAN set; returns (final set, list of intermediate sets) or raises ValueError"""
    vendor, path, prefix, style = RULES[rule]
    cur = set(s_old)
    inter = []
    for c in cmds:
        if style.startswith("huawei"):
            if c == "undo %s all" % prefix:
                cur = set()
            elif c.startswith("undo %s " % prefix):
                cur -= parse_huawei(c[len("undo %s " % prefix):])
            elif c == "undo %s" % prefix or (style == "huawei-single" and c == "undo " + prefix.rsplit(" ", 1)[0]):
                cur = set()
            elif c.startswith(prefix + " "):
                cur |= parse_huawei(c[len(prefix) + 1:])
            else:
                raise ValueError("unexpected command %r" % c)
        else:
            if c == "%s none" % prefix:
                cur = set()
            elif c.startswith("no %s remove " % prefix):
                cur -= parse_cisco(c[len("no %s remove " % prefix):])
            elif c.startswith("%s add " % prefix):
                cur |= parse_cisco(c[len("%s add " % prefix):])
            elif c.startswith("%s remove " % prefix):
                cur -= parse_cisco(c[len("%s remove " % prefix):])
            elif c.startswith("no %s " % prefix):
                cur -= parse_cisco(c[len("no %s " % prefix):])
            elif c == "no %s" % prefix:
                cur = set()
            elif c.startswith(prefix + " "):
                if style == "cisco-add":
                    # the plain form REPLACES the whole allowed list on the device
                    cur = parse_cisco(c[len(prefix) + 1:])
                else:
                    cur |= parse_cisco(c[len(prefix) + 1:])
            else:
                raise ValueError("unexpected command %r" % c)
        inter.append(set(cur))
    return cur, inter


def check_vlan(rule, ci, cj):
    flavours = (False, True) if RULES[rule][3].startswith("cisco") else (False,)
    res = None
    for blank in flavours:
        res = _check_vlan(rule, ci, cj, blank)
        if not res[0]:
            return res
    return res


def _check_vlan(rule, ci, cj, blank_old):
    from annet import api
    vendor, path, prefix, style = RULES[rule]
    hw, dev, rb, fmt, rev = ctx(vendor)
    old_cfg, new_cfg = CFGS[ci], CFGS[cj]
    if style == "huawei-single" and (len(old_cfg[1]) > 1 or len(new_cfg[1]) > 1):
        return True, None, None, False
    s_old, s_new = set(old_cfg[0]), set(new_cfg[0])
    old, new = build_tree(rule, old_cfg, blank_old), build_tree(rule, new_cfg)
    base = {"rule": rule, "old": tree_to_json(old), "new": tree_to_json(new)}
    try:
        _, patch = api._diff_and_patch(dev, old, new, None, None, False)
        paths = [tuple(p) for p in fmt.cmd_paths(patch)]
    except Exception as e:  # noqa
        return False, dict(base, error=repr(e)), "exception:%s" % type(e).__name__, True
    cmds = []
    for p in paths:
        if p[-1] in ("quit", "exit"):
            continue
        if list(p[:-1]) != path:
            if list(p) == path[:len(p)]:
                continue  # block header
            return False, dict(base, paths=paths), "command-outside-block", True
        if p[-1] in ("quit", "exit"):
            continue
        if p[-1] in ("switchport mode trunk",):
            continue
        cmds.append(p[-1])
    try:
        final, inter = simulate(rule, cmds, s_old)
    except ValueError as e:
        return False, dict(base, cmds=cmds, error=str(e)), "unexpected-command", True
    keep = s_old & s_new
    if final != s_new:
        return False, dict(base, cmds=cmds, final=sorted(final), want=sorted(s_new)), "final-set-differs", True
    for st in inter:
        if not keep <= st:
            return False, dict(base, cmds=cmds, transient=sorted(st), must_keep=sorted(keep)), "kept-vlan-removed-transiently", True
    return True, None, None, s_old != s_new


N = len(CFGS)
LO, HI = rt.shard_range(N * N)


def h_vlan(case: int) -> bool:
    """
    pre: LO <= case < HI
    post: _ == True
    """
    c = pick(case, HI, LO)
    with NoTracing():
        i, j = c % N, c // N
        ok, detail, kind, nt = check_vlan(RULE, i, j)
        rt.record({"rule": RULE, "i": i, "j": j, "tier": rt.TIER}, ok, [RULE, i, j] if nt else None, detail=detail,
                  fingerprint="C11:%s:%s" % (RULE, kind))
    return ok


# ---------------------------------------------------------------- many scattered ranges at once (chunking paths)
UW = list(range(2, 32, 2))          # 15 single-VLAN ranges
WKEEP = [(), (0,), (7,), (14,), (0, 7), (3, 11), (0, 7, 14), (1, 2, 3), (0, 1, 2, 3, 4)]
WADD = [(), (31,), (5, 4000)]
WOLD = [15, 13, 11]


def wide_case(k):
    oi, ki, ai, li = digits(k, [len(WOLD), len(WKEEP), len(WADD), 2])
    old = UW[:WOLD[oi]]
    keep = [old[i] for i in WKEEP[ki] if i < len(old)]
    new = sorted(set(keep) | set(WADD[ai]))
    nl = 1 + li
    return old, new, nl


NW = len(WOLD) * len(WKEEP) * len(WADD) * 2
WLO, WHI = rt.shard_range(NW)


def check_wide(rule, k):
    global CFGS
    old, new, nl = wide_case(k)
    so = splits(set(old), nl)[-1]
    sn = splits(set(new), nl)[-1] if new else []
    saved = CFGS
    CFGS = [(sorted(old), so), (sorted(new), sn)]
    try:
        return check_vlan(rule, 0, 1)
    finally:
        CFGS = saved


def h_wide(case: int) -> bool:
    """
    pre: WLO <= case < WHI
    post: _ == True
    """
    c = pick(case, WHI, WLO)
    with NoTracing():
        ok, detail, kind, nt = check_wide(RULE, c)
        rt.record({"rule": RULE, "wide": c}, ok, [RULE, "wide", c] if nt else None, detail=detail, fingerprint="C11:%s:%s" % (RULE, kind))
    return ok


# ---------------------------------------------------------------- huawei 'vlan N' blocks next to 'vlan batch' lines
BLK = [3, 4094]


def check_block(ci, cj, bsel):
    """bsel: (vlan index, presence 0..3 = none / old only / new only / both)"""
    from annet import api
    hw, dev, rb, fmt, rev = ctx("huawei")
    vi, pres = bsel
    n = BLK[vi]
    old_cfg, new_cfg = CFGS[ci], CFGS[cj]
    old, new = build_tree("batch", old_cfg), build_tree("batch", new_cfg)
    blk = "vlan %d" % n
    # on a device a 'vlan N' block only exists for a VLAN that 'vlan batch' lists on the same side
    if (pres in (1, 3) and n not in old_cfg[0]) or (pres in (2, 3) and n not in new_cfg[0]):
        return True, None, "outside:block-without-batch-membership", False
    if pres in (1, 3):
        old[blk] = odict([("description x", odict())])
    if pres in (2, 3):
        new[blk] = odict([("description x", odict())])
    s_old = set(old_cfg[0]) | ({n} if pres in (1, 3) else set())
    s_new = set(new_cfg[0]) | ({n} if pres in (2, 3) else set())
    base = {"old": tree_to_json(old), "new": tree_to_json(new)}
    try:
        _, patch = api._diff_and_patch(dev, old, new, None, None, False)
        paths = [tuple(p) for p in fmt.cmd_paths(patch)]
    except Exception as e:  # noqa
        return False, dict(base, error=repr(e)), "exception:%s" % type(e).__name__, True
    cur = set(s_old)
    keep = s_old & s_new
    for p in paths:
        c = p[0]
        if len(p) > 1:
            continue
        if c.startswith("undo vlan batch "):
            cur -= parse_huawei(c[len("undo vlan batch "):])
        elif c.startswith("vlan batch "):
            cur |= parse_huawei(c[len("vlan batch "):])
        elif re.fullmatch(r"undo vlan \d+", c):
            cur.discard(int(c.split()[-1]))
        elif re.fullmatch(r"vlan \d+", c):
            cur.add(int(c.split()[-1]))
        else:
            return False, dict(base, paths=paths, cmd=c), "unexpected-command", True
        if not keep <= cur:
            return False, dict(base, paths=paths, after=c, state=sorted(cur), must_keep=sorted(keep)), "kept-vlan-removed-transiently", True
    if cur != s_new:
        return False, dict(base, paths=paths, final=sorted(cur), want=sorted(s_new)), "final-set-differs", True
    return True, None, None, s_old != s_new


NB = N * N * 8
BLO, BHI = rt.shard_range(NB)


def h_block(case: int) -> bool:
    """
    pre: BLO <= case < BHI
    post: _ == True
    """
    c = pick(case, BHI, BLO)
    with NoTracing():
        i, j, b = digits(c, [N, N, 8])
        ok, detail, kind, nt = check_block(i, j, (b // 4, b % 4))
        rt.record({"block": b, "i": i, "j": j, "tier": rt.TIER}, ok, ["block", i, j, b] if nt else None, detail=detail,
                  fingerprint="C11:batch+block:%s" % kind)
    return ok


# ---------------------------------------------------------------- collapse / expand round trip
U8 = [1, 2, 3, 5, 6, 9, 4093, 4094]


def check_roundtrip(mask, flavour):
    from annet.annlib import lib
    s = set(U8[i] for i in range(8) if mask >> i & 1)
    if not s:
        return True, None
    if flavour == 0:
        text = " ".join(lib.huawei_collapse_vlandb(s))
        back = lib.huawei_expand_vlandb(text)
        want_text = fmt_huawei(ref_ranges(s))
    else:
        tiny = flavour == 1
        text = ",".join(lib.cisco_collapse_vlandb(s, tiny))
        back = lib.cisco_expand_vlandb(text)
        want_text = _fmt_cisco(ref_ranges(s)) if tiny else None
    ok = back == s and (want_text is None or text == want_text)
    return ok, {"set": sorted(s), "collapsed": text, "expanded": sorted(back), "reference_text": want_text}


def h_roundtrip(case: int) -> bool:
    """
    pre: 0 <= case < 768
    post: _ == True
    """
    c = pick(case, 768)
    with NoTracing():
        mask, fl = c % 256, c // 256
        ok, detail = check_roundtrip(mask, fl)
        rt.record({"mask": mask, "flavour": fl}, ok, [mask, fl] if mask else None, detail=detail,
                  fingerprint="C11:collapse-expand:%s" % ["huawei", "cisco", "cisco-catalyst"][fl])
    return ok


def h_twin(case: int) -> bool:
    """
    pre: 0 <= case < N * N
    post: _ == True
    """
    # reachability twin: "no patch ever contains a removal command" must be refuted
    c = pick(case, N * N)
    with NoTracing():
        from annet import api
        hw, dev, rb, fmt, rev = ctx("huawei")
        old, new = build_tree("trunk", CFGS[c % N]), build_tree("trunk", CFGS[c // N])
        _, patch = api._diff_and_patch(dev, old, new, None, None, False)
        ok = not any(p[-1].startswith("undo ") for p in fmt.cmd_paths(patch))
        rt.record({"c": c}, ok, c)
    return ok


def plan(tier):
    q = tier == "quick"
    obs = []
    for r in RULES:
        obs.append(dict(name="vlan.%s" % r, func="h_vlan", shards=4 if q else 12, timeout=280 if q else 2400, env={"VT_RULE": r}))
    for r in ("trunk", "hybrid", "batch", "swtrunk", "cvlan"):
        obs.append(dict(name="wide.%s" % r, func="h_wide", shards=1, timeout=200, env={"VT_RULE": r}))
    obs.append(dict(name="batch+block", func="h_block", shards=8 if q else 16, timeout=280 if q else 2400))
    obs.append(dict(name="roundtrip", func="h_roundtrip", shards=1, timeout=200))
    obs.append(dict(name="twin", func="h_twin", shards=1, timeout=100, expect="refuted"))
    return obs


def replay(obligation, case):
    global U, MAXLINES, CFGS
    if obligation == "roundtrip":
        ok, detail = check_roundtrip(case["mask"], case["flavour"])
        return {"ok": ok, "detail": detail,
                "fingerprint": "C11:collapse-expand:%s" % ["huawei", "cisco", "cisco-catalyst"][case["flavour"]]}
    if "wide" in case:
        ok, detail, kind, _ = check_wide(case["rule"], case["wide"])
        return {"ok": ok, "detail": detail, "fingerprint": "C11:%s:%s" % (case["rule"], kind)}
    tier = case.get("tier", "quick")
    U = U_QUICK if tier == "quick" else U_THOR
    MAXLINES = 2 if tier == "quick" else 3
    CFGS = configs(U, MAXLINES)
    if "block" in case:
        ok, detail, kind, _ = check_block(case["i"], case["j"], (case["block"] // 4, case["block"] % 4))
        return {"ok": ok, "detail": detail, "fingerprint": "C11:batch+block:%s" % kind}
    ok, detail, kind, _ = check_vlan(case["rule"], case["i"], case["j"])
    return {"ok": ok, "detail": detail, "fingerprint": "C11:%s:%s" % (case["rule"], kind)}
