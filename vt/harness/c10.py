"""C10 — generators are confined to their ACL, own lines exclusively, and merge by union.  See DESIGN.md §C10."""
import logging
import os
from collections import OrderedDict as odict

from crosshair.tracers import NoTracing

from vt import rt
from vt.common import pick, digits, make_hw, tree_to_json
from vt.oracles import acl as refacl

META = {
    "property_id": "C10",
    "level": "exploration",
    "technique": "CrossHair/z3-certified exhaustion of bounded generator-program x ACL spaces through the real "
                 "_old_new_per_device (PartialGenerator subclasses built from decoded programs), outcomes compared with RefAcl",
    "functions": [
        "annet/gen.py:_old_new_per_device", "annet/generators/__init__.py:run_partial_generators",
        "annet/generators/__init__.py:_run_partial_generator", "annet/generators/base.py:TreeGenerator.block",
        "annet/generators/base.py:TreeGenerator.block_if", "annet/generators/base.py:TreeGenerator.multiblock",
        "annet/generators/base.py:TreeGenerator._append_text_cb", "annet/generators/partial.py:PartialGenerator.__call__",
        "annet/generators/result.py:RunGeneratorResult.config_tree", "annet/generators/result.py:RunGeneratorResult.acl_text",
        "annet/annlib/lib.py:merge_dicts", "annet/annlib/patching.py:apply_acl", "annet/annlib/patching.py:match_row_to_acl",
        "annet/annlib/rbparser/acl.py:compile_acl_text",
    ],
    "rule": "one path per (program 1, ACL 1, program 2, ACL 2) index; non-trivial = both generators yield something; distinct by index",
    "explanation": "",
    "assumptions": ["generator programs are sequences of <= 3 operations from {yield row, tuple yield, multi-line yield, block, "
                    "block_if, multiblock, nested blocks}; expected paths of every operation are written by hand",
                    "ctx: config from stdin (one uncovered row), no implicit defaults, no filter ACL, exclusive ACL on",
                    "vendor huawei", "7 (quick) / 8 ACL texts per generator incl. the empty ACL, an indented ACL literal and a differently written parent rule matching the same block header"],
    "outside": ["ref generators", "annotations", "acl_safe", "Entire/JSON generators (C19/C13)"],
    "bounds": {},
}

logging.disable(logging.CRITICAL)

# ---------------------------------------------------------------- operations: (code, expected paths given cond)
def op_noop(g, cond):
    return
    yield


def op_a(g, cond):
    yield "a"


def op_tuple(g, cond):
    yield ("b", 1)


def op_block(g, cond):
    with g.block("b", 1):
        yield "c"


def op_block2(g, cond):
    with g.block("b 1"):
        yield "d 1"
        yield "e"


def op_block_if(g, cond):
    with g.block_if("interface X", condition=cond):
        yield "mtu 9000"


def op_multiblock(g, cond):
    with g.multiblock("b 1", ("n", 2)):
        yield "c"


def op_multiline(g, cond):
    yield """
        b 1
          c
          d 1
    """


def op_multiline_in_block(g, cond):
    # a multi-line chunk yielded INSIDE a block: its rows belong to the block
    with g.block("b 1"):
        yield """
            c
            d 1
        """


def op_z(g, cond):
    yield "z"


def op_g(g, cond):
    yield "g 5"


def op_nested(g, cond):
    with g.block("s 1"):
        with g.block("p"):
            yield "q"
        yield "g 7"


def op_block_default_if(g, cond):
    # block_if with the default condition: skipped when a token is None / ""
    with g.block_if("b", 1 if cond else None):
        yield "c"


def op_block_if_zero(g, cond):
    # 0 is a perfectly good token: only None / "" switch a default block_if off
    with g.block_if("area", 0):
        yield "network x"


def op_block_if_false_token(g, cond):
    with g.block_if("unit", 0 if cond else ""):
        yield "c"


def op_block_under_leaf(g, cond):
    # a block whose header is covered by a LEAF rule of the ACL: the nested line is not covered
    with g.block("a"):
        yield "c"


OPS = [
    (op_noop, lambda c: []),
    (op_a, lambda c: [("a",)]),
    (op_tuple, lambda c: [("b 1",)]),
    (op_block, lambda c: [("b 1",), ("b 1", "c")]),
    (op_block2, lambda c: [("b 1",), ("b 1", "d 1"), ("b 1", "e")]),
    (op_block_if, lambda c: [("interface X",), ("interface X", "mtu 9000")] if c else [("mtu 9000",)]),
    (op_multiblock, lambda c: [("b 1",), ("b 1", "n 2"), ("b 1", "n 2", "c")]),
    (op_multiline, lambda c: [("b 1",), ("b 1", "c"), ("b 1", "d 1")]),
    (op_z, lambda c: [("z",)]),
    (op_g, lambda c: [("g 5",)]),
    (op_nested, lambda c: [("s 1",), ("s 1", "p"), ("s 1", "p", "q"), ("s 1", "g 7")]),
    (op_block_default_if, lambda c: [("b 1",), ("b 1", "c")] if c else [("c",)]),
    (op_block_if_zero, lambda c: [("area 0",), ("area 0", "network x")]),
    (op_block_if_false_token, lambda c: [("unit 0",), ("unit 0", "c")] if c else [("c",)]),
    (op_block_under_leaf, lambda c: [("a",), ("a", "c")]),
    (op_multiline_in_block, lambda c: [("b 1",), ("b 1", "c"), ("b 1", "d 1")]),
]

# programs: (ops..., cond)
PROGS = [(i,) for i in range(len(OPS))] + [
    (1, 3), (3, 4), (4, 3), (5, 1), (6, 3), (7, 2), (3, 8), (9, 3), (10, 1), (1, 9), (2, 2), (3, 3),
    (1, 3, 5), (3, 6, 4), (10, 9, 1), (7, 4, 6), (5, 10, 3), (11, 1), (11, 3, 9), (2, 11, 5), (12, 1), (13, 3), (14,), (14, 3), (15, 1),
]
PROGS = [(p, True) for p in PROGS] + [(p, False) for p in PROGS if 5 in p or 11 in p or 13 in p]
PROGS_Q = PROGS[:24] + PROGS[-6:]

ACLS = [
    "a\nb *\n    c\n    d *\n    e\n    n *\n        c\ninterface *\n    mtu\narea *\n    network\nunit *\n    c\n",
    "b *\n    e\n    c\n    d *\ninterface *\n    mtu\ng ~ %global\ns *\n    ~ %global\n",
    "g ~ %global\ns *\n    ~ %global\na\n",
    "a %cant_delete=1\nb * %cant_delete=1\n    c\n    e\n    d *\n    n *\n        c\n",
    "",
    # written with a deeper base indentation than the other generators' ACL literals
    "            g ~ %global\n            s *\n                ~ %global\n            a\n            interface *\n                mtu\n",
    # the same deletable child rules under a DIFFERENTLY WRITTEN parent rule that matches the same block header
    "b */\\d+/\n    c\n    e\n    d *\ninterface */X\\d*/\n    mtu\n",
    "b *\n    ~ %global\ninterface * %cant_delete=0\n    mtu\nmtu\nc\n",
]


def expected_paths(prog):
    ops, cond = prog
    out = []
    for o in ops:
        out.extend(OPS[o][1](cond))
    return out


def paths_to_tree(paths):
    t = odict()
    for p in paths:
        cur = t
        for k in p:
            cur = cur.setdefault(k, odict())
    return t


def make_generator(name, prog, acl_text):
    from annet.generators import PartialGenerator
    ops, cond = prog

    class _Storage:
        def flush_perf(self):
            return {}

    class G(PartialGenerator):
        def acl_huawei(self, device):
            return acl_text

        def run_huawei(self, device):
            for o in ops:
                yield from OPS[o][0](self, cond)
    G.__name__ = name
    G.__qualname__ = name
    return G(_Storage())


class _Dev:
    def __init__(self):
        self.hw = make_hw("huawei")
        self.hostname = "dev1"
        self.fqdn = "dev1.example"
        self.id = 1
        self.breed = "vrp85"

        class _St:
            def flush_perf(self):
                return {}
        self.storage = _St()

    def is_pc(self):
        return False

    def __hash__(self):
        return 1


class _Args:
    no_acl = False
    acl_safe = False
    no_acl_exclusive = False
    generators_context = None
    profile = False
    fail_on_empty_config = False
    filter_acl = ""
    filter_ifaces = None
    filter_peers = None
    filter_policies = None
    required_packages_check = False


def run_real(prog1, acl1, prog2, acl2):
    from annet import gen as ann_gen
    dev = _Dev()
    gens = ann_gen.DeviceGenerators(partial={dev: [make_generator("G1", prog1, acl1), make_generator("G2", prog2, acl2)]},
                                    ref={dev: []})
    ctx = ann_gen.OldNewDeviceContext(
        config="-", args=_Args(), downloaded_files={}, failed_files={}, running={}, failed_running={}, no_new=False,
        stdin={"config": "q\n", "filter_acl": ""}, add_annotations=False, add_implicit=False, do_files_download=False,
        gens=gens, fetched_packages={}, failed_packages={}, device_count=1, do_print_perf=False)
    return ann_gen._old_new_per_device(ctx, dev, None)


def check_case(prog1, ai1, prog2, ai2):
    from annet.generators import GeneratorError
    from annet.annlib import patching
    acl1, acl2 = ACLS[ai1], ACLS[ai2]
    base = {"prog1": [list(prog1[0]), prog1[1]], "acl1": acl1, "prog2": [list(prog2[0]), prog2[1]], "acl2": acl2}
    # ---- reference outcome
    want = None
    trees = []
    for (prog, acl, name) in ((prog1, acl1, "G1"), (prog2, acl2, "G2")):
        t = paths_to_tree(expected_paths(prog))
        trees.append(t)
        level = refacl.ALevel.root(refacl.parse_acl([(name, acl)], "undo"))
        try:
            _, unc = refacl.ref_filter(t, level)
        except refacl.Ambiguous:
            return True, None, "outside:ambiguous", False
        if unc and want is None:
            want = ("GeneratorError", name, unc[0])
    if want is None:
        merged = paths_to_tree(expected_paths(prog1) + expected_paths(prog2))
        level = refacl.ALevel.root(refacl.parse_acl([("G1", acl1), ("G2", acl2)], "undo"))
        try:
            conflict = _exclusive_conflict(merged, level)
        except refacl.Ambiguous:
            return True, None, "outside:ambiguous", False
        want = ("AclNotExclusiveError", conflict) if conflict else ("ok", tree_to_json(merged))
    # ---- real outcome
    try:
        res = run_real(prog1, acl1, prog2, acl2)
        if res.err is not None:
            got = (type(res.err).__name__, str(res.err)[:200])
        else:
            got = ("ok", tree_to_json(res.new))
    except GeneratorError as e:
        cause = e.__cause__
        got = ("GeneratorError", type(cause).__name__, str(cause))
    except patching.AclNotExclusiveError as e:
        got = ("AclNotExclusiveError", str(e))
    except Exception as e:  # noqa
        got = ("exception:%s" % type(e).__name__, repr(e)[:300])
    nt = bool(trees[0]) and bool(trees[1])
    if want[0] != got[0]:
        return False, dict(base, want=want, got=got), "outcome-differs:%s-vs-%s" % (want[0], got[0]), nt
    if want[0] == "ok":
        if _plain(want[1]) != _plain(got[1]):
            return False, dict(base, want=want[1], got=got[1]), "new-is-not-the-union", nt
        if _rows_order(got[1]) != _rows_order(want[1]):
            return False, dict(base, want=want[1], got=got[1]), "union-order-differs", nt
    elif want[0] == "GeneratorError":
        if got[1] != "AclError" or got[2] != " / ".join(want[2]):
            return False, dict(base, want=want, got=got), "generator-error-names-wrong-row", nt
    return True, None, want[0], nt


def _plain(lst):
    return {row: _plain(sub) for row, sub in lst}


def _rows_order(lst):
    return [(row, _rows_order(sub)) for row, sub in lst]


def _exclusive_conflict(tree, level, path=()):
    """first row (in order) that >= 2 generators may delete"""
    for row, sub in tree.items():
        dl = [r for r in level.local if r.rx.match(row)] + [r for r in level.globals if r.rx.match(row)] + \
             [r for r in level.local if r.rrx.match(row)] + [r for r in level.globals if r.rrx.match(row)]
        per = {}
        for r in dl:
            for w, f in zip(r.writers, r.cant_delete):
                per[w] = per.get(w, True) and f
        if len([w for w, f in per.items() if not f]) > 1:
            return path + (row,)
        kind, rules, child = level.classify(row)
        if kind is not None:
            c = _exclusive_conflict(sub, child, path + (row,))
            if c:
                return c
    return None


PG = PROGS
NA = 7 if rt.TIER == "quick" else len(ACLS)
RAD = [len(PG), NA, len(PG), NA]
NCASE = RAD[0] * RAD[1] * RAD[2] * RAD[3]
LO, HI = rt.shard_range(NCASE)


def h_gens(case: int) -> bool:
    """
    pre: LO <= case < HI
    post: _ == True
    """
    c = pick(case, HI, LO)
    with NoTracing():
        p1, a1, p2, a2 = digits(c, RAD)
        ok, detail, kind, nt = check_case(PG[p1], a1, PG[p2], a2)
        rt.count("outcome_" + str(kind).split(":")[0])
        rt.record({"p1": p1, "a1": a1, "p2": p2, "a2": a2, "tier": rt.TIER}, ok, [p1, a1, p2, a2] if nt else None,
                  detail=detail, fingerprint="C10:%s" % kind)
    return ok


def h_twin(case: int) -> bool:
    """
    pre: 0 <= case < NCASE
    post: _ == True
    """
    # reachability twin: "the run never ends without an error" must be refuted (some pair yields a clean union)
    c = pick(case, NCASE)
    with NoTracing():
        p1, a1, p2, a2 = digits((c * 7919) % NCASE, RAD)
        ok, detail, kind, nt = check_case(PG[p1], a1, PG[p2], a2)
        good = not (kind == "ok" and nt)
        rt.record({"c": c}, good, c)
    return good


def plan(tier):
    q = tier == "quick"
    return [
        dict(name="gens", func="h_gens", shards=16 if q else 64, timeout=280 if q else 3000),
        dict(name="twin", func="h_twin", shards=1, timeout=200, expect="refuted"),
    ]


def replay(obligation, case):
    pg = PROGS
    ok, detail, kind, _ = check_case(pg[case["p1"]], case["a1"], pg[case["p2"]], case["a2"])
    return {"ok": ok, "detail": detail, "fingerprint": "C10:%s" % kind}
