"""C15 — mesh sessions mirrored on both ends; handler data merges without loss.  See DESIGN.md §C15."""
import itertools
import os
import re
from typing import Optional, Sequence

from crosshair.tracers import NoTracing
from crosshair.core import deep_realize

from vt import rt
from vt.common import pick, digits

META = {
    "property_id": "C15",
    "level": "other",
    "technique": "CrossHair/z3: merge laws of annet.mesh.basemodel on the real DTO classes with symbolic field values and "
                 "presence bits; solver-certified exhaustion of bounded topology/registry/registration-order spaces through "
                 "the real MeshExecutor",
    "functions": [
        "annet/mesh/basemodel.py:merge", "annet/mesh/basemodel.py:_merge", "annet/mesh/basemodel.py:Merger.__call__",
        "annet/mesh/basemodel.py:ForbidChange", "annet/mesh/basemodel.py:Unite", "annet/mesh/basemodel.py:Concat",
        "annet/mesh/basemodel.py:Merge", "annet/mesh/basemodel.py:DictMerge",
        "annet/mesh/executor.py:MeshExecutor.execute_for", "annet/mesh/executor.py:_execute_direct",
        "annet/mesh/executor.py:_execute_direct_pair", "annet/mesh/executor.py:_execute_indirect",
        "annet/mesh/executor.py:_execute_virtual", "annet/mesh/executor.py:_apply_direct_interface_changes",
        "annet/mesh/executor.py:_apply_indirect_interface_changes", "annet/mesh/registry.py:lookup_direct",
        "annet/mesh/registry.py:lookup_indirect", "annet/mesh/match_args.py:PeerNameTemplate", "annet/mesh/match_args.py:match_safe",
        "annet/mesh/models_converter.py:to_bgp_peer", "annet/mesh/models_converter.py:to_interface_changes",
        "annet/mesh/port_processor.py:united_ports", "annet/mesh/port_processor.py:separate_ports",
    ],
    "rule": "merge: one path per combination of presence bits and (in)equalities of the symbolic values; exec: one path per "
            "(topology, rule set, interface kind, conflict flag, orientation, port processor) index, each run under every "
            "registration permutation; non-trivial = at least one peer produced / at least one field set on both sides",
    "explanation": "Bounded symbolic verification of the merge algebra: three instances of the real DirectPeerDTO / Aggregate / "
                   "FamilyOptions models are filled from symbolic booleans and symbolic integers in 0..3 guarded by symbolic presence "
                   "bits; z3 decides every path and the laws (unset never overrides, equal-or-MergeForbiddenError, union, "
                   "concatenation, recursion, associativity when defined, commutativity up to Concat order) are asserted on all of "
                   "them.  The executor obligations enumerate a finite scenario space completely and compare both ends of every "
                   "linked pair and all registration permutations.",
    "assumptions": ["integer field values bounded to 0..3 (MergeForbiddenError formats both values, CrossHair realises them one by one)",
                    "handlers are pure functions of (left, right, ports); Storage/Device are in-memory stand-ins implementing annet.storage protocols",
                    "Unite fields use selector-chosen small sets (set hashing)"],
    "outside": ["netbox adapters and real Device classes", "topologies other than: leaf-spine-rr with 0..2 parallel links (exec), two devices matched by both masks of a rule (exec.symmetric), a hub with three leaves (exec.hub)",
                "concatenated tuple order (compared as multisets, as the property allows)"],
    "bounds": {},
}

# ---------------------------------------------------------------- A: merge laws
FAMS = [None, {"ipv4_unicast"}, {"ipv6_unicast"}, set(), {"ipv4_unicast", "ipv6_unicast"}]
_Q = rt.TIER == "quick"
NF = 3 if _Q else 5
NA = (2, 2, 3) if _Q else (3, 4, 5)
NR = 3 if _Q else 4


def _mk_peer(p_add, v_add, p_as, v_as, p_mtu, v_mtu, fam_i):
    from annet.mesh.peer_models import MeshSession
    kw = {}
    if p_add:
        kw["add_path"] = v_add
    if p_as:
        kw["asnum"] = v_as
    if p_mtu:
        kw["bfd"] = v_mtu
    if FAMS[fam_i] is not None:
        kw["families"] = set(FAMS[fam_i])
    return MeshSession(**kw)


def _try(f):
    from annet.mesh.basemodel import MergeForbiddenError
    try:
        return ("ok", dict(vars(f())))
    except MergeForbiddenError:
        return ("forbidden", None)


def _laws_pair(a, b):
    """laws for merge(a, b) on DirectPeerDTO instances; returns list of violated law names"""
    from annet.mesh.basemodel import merge
    bad = []
    va, vb = vars(a), vars(b)
    # deep snapshots: vars() is the live attribute dict, and a shallow copy would share the set objects
    import copy as _copy
    sa, sb = _copy.deepcopy(dict(va)), _copy.deepcopy(dict(vb))
    r = _try(lambda: merge(a, b))
    conflict = False
    for f in ("add_path", "asnum", "bfd"):
        if f in va and f in vb and not (va[f] == vb[f]):
            conflict = True
    if conflict != (r[0] == "forbidden"):
        bad.append("equal-or-forbidden")
    if r[0] == "ok":
        res = r[1]
        for f in ("add_path", "asnum", "bfd", "families"):
            ina, inb = f in va, f in vb
            if ina and not inb and not (f in res and res[f] == va[f]):
                bad.append("unset-overrides-set:" + f)
            if inb and not ina and not (f in res and res[f] == vb[f]):
                bad.append("unset-overrides-set:" + f)
            if not ina and not inb and f in res:
                bad.append("field-invented:" + f)
            if ina and inb and f != "families" and not (res.get(f) == va[f]):
                bad.append("value-lost:" + f)
        if "families" in va and "families" in vb and res.get("families") != (va["families"] | vb["families"]):
            bad.append("unite-not-union")
        r2 = _try(lambda: merge(b, a))
        if r2[0] != "ok" or r2[1] != res:
            bad.append("not-commutative")
    # inputs untouched
    if dict(vars(a)) != sa or dict(vars(b)) != sb:
        bad.append("inputs-mutated")
    return bad


def h_merge(pa: bool, va: bool, qa: bool, wa: int, ra: bool, ma: bool,
            pb: bool, vb: bool, qb: bool, wb: int, rb: bool, mb: bool, fa: int, fb: int) -> bool:
    """
    pre: 0 <= wa <= 3 and 0 <= wb <= 3
    pre: 0 <= fa < NF and 0 <= fb < NF and rt.in_shard(fa * NF + fb)
    pre: (not _Q) or (not ra and not rb and not ma and not mb)
    post: _ == True
    """
    fai, fbi = pick(fa, NF), pick(fb, NF)
    a = _mk_peer(pa, va, qa, wa, ra, ma, fai)
    b = _mk_peer(pb, vb, qb, wb, rb, mb, fbi)
    bad = _laws_pair(a, b)
    ok = not bad
    cs = None
    if not ok:
        cs = deep_realize({"a": [pa, va, qa, wa, ra, ma, fai], "b": [pb, vb, qb, wb, rb, mb, fbi], "c": None})
    with NoTracing():
        rt.record(cs or {"path": rt.paths}, ok, ["merge", rt.SHARD, rt.paths], detail={"violated": bad},
                  fingerprint="C15:merge:%s" % (bad[0] if bad else ""))
    return ok


def _assoc_laws(a, b, c):
    from annet.mesh.basemodel import merge
    bad = []
    l = _try(lambda: merge(merge(a, b), c))
    r = _try(lambda: merge(a, merge(b, c)))
    if l[0] == "ok" and r[0] == "ok" and l[1] != r[1]:
        bad.append("not-associative")
    if l[0] != r[0]:
        # with equal-or-error mergers a conflict anywhere is a conflict in both groupings
        bad.append("conflict-depends-on-grouping")
    if _try(lambda: merge(a, b, c)) != l:
        bad.append("variadic-differs-from-fold")
    return bad


def h_merge_assoc(qa: bool, wa: int, qb: bool, wb: int, qc: bool, wc: int, pa: bool, va: bool, pc: bool, vc: bool,
                  fa: int, fb: int, fc: int) -> bool:
    """
    pre: 0 <= wa <= 2 and 0 <= wb <= 2 and 0 <= wc <= 2
    pre: 0 <= fa < NA[0] and 0 <= fb < NA[1] and 0 <= fc < NA[2] and rt.in_shard((fa * NA[1] + fb) * NA[2] + fc)
    pre: (not _Q) or (not pa and not pc and not va and not vc)
    post: _ == True
    """
    fai, fbi, fci = pick(fa, NA[0]), pick(fb, NA[1]), pick(fc, NA[2])
    a = _mk_peer(pa, va, qa, wa, False, False, fai)
    b = _mk_peer(False, False, qb, wb, False, False, fbi)
    c = _mk_peer(pc, vc, qc, wc, False, False, fci)
    bad = _assoc_laws(a, b, c)
    ok = not bad
    cs = None
    if not ok:
        cs = deep_realize({"a": [pa, va, qa, wa, False, False, fai], "b": [False, False, qb, wb, False, False, fbi],
                           "c": [pc, vc, qc, wc, False, False, fci]})
    with NoTracing():
        rt.record(cs or {"path": rt.paths}, ok, ["assoc", rt.SHARD, rt.paths], detail={"violated": bad},
                  fingerprint="C15:merge:%s" % (bad[0] if bad else ""))
    return ok


def replay_merge(case):
    a, b = _mk_peer(*case["a"]), _mk_peer(*case["b"])
    if case.get("c") is None:
        bad = _laws_pair(a, b)
    else:
        bad = _assoc_laws(a, b, _mk_peer(*case["c"]))
    return {"ok": not bad, "detail": {"violated": bad}, "fingerprint": "C15:merge:%s" % (bad[0] if bad else "")}


ROUTES = [None, (), ("r1",), ("r2", "r3")]


def _mk_family(p_mp, v_mp, route_i, p_pol, pol_sel, p_sup, v_sup):
    from annet.mesh.device_models import FamilyOptions, Aggregate
    agg = {}
    if ROUTES[route_i] is not None:
        agg["routes"] = ROUTES[route_i]
    if p_pol:
        agg["policy"] = ["P0", "P1"][pol_sel]
    if p_sup:
        agg["suppress"] = v_sup
    kw = {"aggregate": Aggregate(**agg)}
    if p_mp:
        kw["multipath"] = v_mp
    return FamilyOptions(**kw)


def _fam_view(f):
    d = dict(vars(f))
    d["aggregate"] = dict(vars(d["aggregate"]))
    return d


def _nested_laws(a, b):
    from annet.mesh.basemodel import merge, MergeForbiddenError
    bad = []
    va, vb = _fam_view(a), _fam_view(b)
    conflict = ("multipath" in va and "multipath" in vb and not (va["multipath"] == vb["multipath"]))
    for f in ("policy", "suppress"):
        if f in va["aggregate"] and f in vb["aggregate"] and not (va["aggregate"][f] == vb["aggregate"][f]):
            conflict = True
    try:
        res = _fam_view(merge(a, b))
        if conflict:
            bad.append("conflict-not-reported")
    except MergeForbiddenError:
        if not conflict:
            bad.append("spurious-conflict")
        return bad
    ra, rb = va["aggregate"].get("routes"), vb["aggregate"].get("routes")
    want = ra + rb if (ra is not None and rb is not None) else (ra if ra is not None else rb)
    if res["aggregate"].get("routes") != want:
        bad.append("concat-not-concatenation")
    for f in ("policy", "suppress"):
        w = va["aggregate"].get(f, vb["aggregate"].get(f))
        if res["aggregate"].get(f) != w:
            bad.append("nested-merge-lost:" + f)
    if res.get("multipath") != va.get("multipath", vb.get("multipath")):
        bad.append("value-lost:multipath")
    if _fam_view(a) != va or _fam_view(b) != vb:
        bad.append("inputs-mutated")
    return bad


def h_merge_nested(pa: bool, wa: int, ra: int, qa: bool, sa: int, ta: bool, ua: bool,
                   pb: bool, wb: int, rb: int, qb: bool, sb: int, tb: bool, ub: bool) -> bool:
    """
    pre: 0 <= wa <= 3 and 0 <= wb <= 3 and 0 <= ra < NR and 0 <= rb < NR and 0 <= sa < 2 and 0 <= sb < 2
    pre: rt.in_shard(((ra * NR + rb) * 2 + sa) * 2 + sb)
    pre: (not _Q) or (not ta and not tb and not ua and not ub)
    post: _ == True
    """
    rai, rbi, sai, sbi = pick(ra, NR), pick(rb, NR), pick(sa, 2), pick(sb, 2)
    a = _mk_family(pa, wa, rai, qa, sai, ta, ua)
    b = _mk_family(pb, wb, rbi, qb, sbi, tb, ub)
    bad = _nested_laws(a, b)
    ok = not bad
    cs = None
    if not ok:
        cs = deep_realize({"a": [pa, wa, rai, qa, sai, ta, ua], "b": [pb, wb, rbi, qb, sbi, tb, ub]})
    with NoTracing():
        rt.record(cs or {"path": rt.paths}, ok, ["nested", rt.SHARD, rt.paths], detail={"violated": bad},
                  fingerprint="C15:merge-nested:%s" % (bad[0] if bad else ""))
    return ok


def h_merge_dict(ka: int, kb: int, pa: bool, wa: int, pb: bool, wb: int) -> bool:
    """
    pre: 0 <= ka < 4 and 0 <= kb < 4 and 0 <= wa <= 3 and 0 <= wb <= 3
    post: _ == True
    """
    # DictMerge(Merge()) on VrfOptions.groups: keys by selector, values symbolic
    from annet.mesh.device_models import VrfOptions
    from annet.mesh.peer_models import MeshPeerGroup
    from annet.mesh.basemodel import merge, MergeForbiddenError
    KEYS = [[], ["g1"], ["g2"], ["g1", "g2"]]
    kai, kbi = pick(ka, 4), pick(kb, 4)
    a, b = VrfOptions(vrf_name="v"), VrfOptions(vrf_name="v")
    for k in KEYS[kai]:
        a.groups[k] = MeshPeerGroup(name=k, **({"mtu": wa} if pa else {}))
    for k in KEYS[kbi]:
        b.groups[k] = MeshPeerGroup(name=k, **({"mtu": wb} if pb else {}))
    common = [k for k in KEYS[kai] if k in KEYS[kbi]]
    conflict = bool(common) and pa and pb and not (wa == wb)
    bad = []
    try:
        r = merge(a, b)
        if conflict:
            bad.append("conflict-not-reported")
        else:
            if sorted(r.groups.keys()) != sorted(set(KEYS[kai]) | set(KEYS[kbi])):
                bad.append("dictmerge-keys")
            for k in r.groups:
                want = wa if (k in KEYS[kai] and pa) else (wb if (k in KEYS[kbi] and pb) else None)
                got = getattr(r.groups[k], "mtu", None)
                if not (got == want):
                    bad.append("dictmerge-value")
    except MergeForbiddenError:
        if not conflict:
            bad.append("spurious-conflict")
    ok = not bad
    cs = None
    if not ok:
        cs = deep_realize({"ka": kai, "kb": kbi, "pa": pa, "wa": wa, "pb": pb, "wb": wb})
    with NoTracing():
        rt.record(cs or {"path": rt.paths}, ok, ["dict", rt.paths] if common else None, detail={"violated": bad},
                  fingerprint="C15:merge-dict:%s" % (bad[0] if bad else ""))
    return ok


LAGV = ["<unset>", None, 7, 8]


def check_none(ai, bi):
    """Optional fields: an explicit None is a value like any other (ForbidChange: equal or MergeForbiddenError)"""
    from annet.mesh.peer_models import DirectPeerDTO
    from annet.mesh.basemodel import merge, MergeForbiddenError
    def mk(i):
        return DirectPeerDTO(**({} if LAGV[i] == "<unset>" else {"lag": LAGV[i], "multihop": LAGV[i]}))
    res = {}
    for name, (x, y) in (("ab", (ai, bi)), ("ba", (bi, ai))):
        try:
            r = merge(mk(x), mk(y))
            res[name] = ("ok", vars(r).get("lag", "<unset>"), vars(r).get("multihop", "<unset>"))
        except MergeForbiddenError:
            res[name] = ("forbidden",)
    a, b = LAGV[ai], LAGV[bi]
    if a == "<unset>" or b == "<unset>" or a == b:
        v = b if a == "<unset>" else a
        want = ("ok", v, v)
    else:
        want = ("forbidden",)
    bad = []
    if res["ab"] != want:
        bad.append("explicit-None-not-treated-as-value" if None in (a, b) else "equal-or-forbidden")
    if res["ab"] != res["ba"]:
        bad.append("not-commutative")
    return bad, {"a": str(a), "b": str(b), "merge(a,b)": str(res["ab"]), "merge(b,a)": str(res["ba"]), "want": str(want)}


def h_merge_none(case: int) -> bool:
    """
    pre: 0 <= case < 16
    post: _ == True
    """
    c = pick(case, 16)
    with NoTracing():
        ai, bi = c % 4, c // 4
        bad, detail = check_none(ai, bi)
        rt.record({"a": ai, "b": bi}, not bad, [ai, bi] if ai and bi else None, detail=detail,
                  fingerprint="C15:merge:%s" % (bad[0] if bad else ""))
    return not bad


# ---------------------------------------------------------------- B: executor
class FInterface:
    def __init__(self, name, neighbor_fqdn=None, neighbor_port=None):
        self._name = name
        self.addrs = []
        self.neighbor_fqdn = neighbor_fqdn
        self.neighbor_port = neighbor_port

    @property
    def name(self):
        return self._name

    def add_addr(self, address_mask, vrf):
        self.addrs.append((address_mask, vrf))


class FDevice:
    def __init__(self, name, interfaces):
        self._name = name
        self.interfaces = interfaces
        self.log = []

    storage = None
    hw = None
    breed = None

    @property
    def id(self):
        return self._name

    @property
    def fqdn(self):
        return self._name

    @property
    def hostname(self):
        return self._name

    def __hash__(self):
        return hash(self._name)

    def is_pc(self):
        return False

    @property
    def neighbours_ids(self):
        return sorted({n.neighbor_fqdn for n in self.interfaces if n.neighbor_fqdn})

    neighbours_fqdns = neighbours_ids

    def make_lag(self, lag, ports, lag_min_links):
        self.log.append(("lag", lag, tuple(sorted(ports)), lag_min_links))
        self.interfaces.append(FInterface("Trunk%d" % lag))
        return self.interfaces[-1]

    def add_svi(self, svi):
        self.interfaces.append(FInterface("Vlan%d" % svi))
        return self.interfaces[-1]

    def add_subif(self, interface, subif):
        self.interfaces.append(FInterface("%s.%d" % (interface, subif)))
        return self.interfaces[-1]

    def find_interface(self, name):
        for i in self.interfaces:
            if i.name == name:
                return i
        return None


class FStorage:
    def __init__(self):
        self.devices = []

    def resolve_all_fdnds(self):
        return [d.fqdn for d in self.devices]

    def make_devices(self, query, **kw):
        return [d for d in self.devices if d.fqdn in query]

    def search_connections(self, device, neighbor):
        res = []
        for lp in device.interfaces:
            if lp.neighbor_fqdn == neighbor.fqdn:
                for rp in neighbor.interfaces:
                    if rp.name == lp.neighbor_port:
                        res.append((lp, rp))
        return res


A, B, C = "leaf1.dc", "spine2.dc", "rr3.dc"
KINDS = ["port", "lag", "subif", "svi", "lag+subif"]


def build_world(nlinks):
    a = FDevice(A, [FInterface("lo0")])
    b = FDevice(B, [FInterface("lo0")])
    c = FDevice(C, [FInterface("lo0"), FInterface("eth9")])
    for i in range(nlinks):
        a.interfaces.append(FInterface("et%d" % i, B, "xe%d" % i))
    for i in reversed(range(nlinks)):
        # the two ends need not enumerate their connected ports in the same order
        b.interfaces.append(FInterface("xe%d" % i, A, "et%d" % i))
    st = FStorage()
    st.devices = [a, b, c]
    return st, a, b, c


def make_handlers(kind, conflict, swap_masks):
    """handlers as pure functions of (left, right, session); left is always the device matching the left mask"""
    def h_base(left, right, session):
        # left mask matches leaf{n}, right mask spine{m} (or swapped): addresses are a function of (n, m)
        l, r = (left, right)
        n_leaf = l.match.n if hasattr(l.match, "n") else r.match.n
        leaf, spine = (l, r) if l.device.fqdn.startswith("leaf") else (r, l)
        leaf.addr = "10.%d.0.1/31" % n_leaf
        spine.addr = "10.%d.0.0/31" % n_leaf
        leaf.asnum = 65000 + n_leaf
        spine.asnum = 64512
        session.families = {"ipv4_unicast"}
        if kind == "lag":
            leaf.lag, spine.lag = 1, 2
        elif kind == "subif":
            leaf.subif, spine.subif = 100, 100
        elif kind == "svi":
            leaf.svi, spine.svi = 10, 10
        elif kind == "lag+subif":
            leaf.lag, spine.lag = 1, 2
            leaf.subif, spine.subif = 7, 7

    def h_opts(left, right, session):
        leaf, spine = (left, right) if left.device.fqdn.startswith("leaf") else (right, left)
        leaf.addr = "10.%d.0.1/31" % (left.match.n if hasattr(left.match, "n") else right.match.n)
        spine.addr = "10.%d.0.0/31" % (left.match.n if hasattr(left.match, "n") else right.match.n)
        session.add_path = True
        session.families = {"ipv6_unicast"}
        leaf.mtu = 9000
        leaf.export_policy = "EXP_LEAF"
        spine.import_policy = "IMP_SPINE"

    def h_third(left, right, session):
        leaf, spine = (left, right) if left.device.fqdn.startswith("leaf") else (right, left)
        leaf.addr = "10.%d.0.1/31" % (left.match.n if hasattr(left.match, "n") else right.match.n)
        spine.addr = "10.%d.0.0/31" % (left.match.n if hasattr(left.match, "n") else right.match.n)
        leaf.mtu = 1500 if conflict else 9000
        session.bfd = True
    return [h_base, h_opts, h_third]


def make_registry(order, kind, conflict, swap_masks, port_proc, with_indirect, with_virtual):
    from annet.mesh import MeshRulesRegistry, separate_ports, united_ports
    from annet.mesh.match_args import Left, Right
    reg = MeshRulesRegistry()
    hs = make_handlers(kind, conflict, swap_masks)
    pp = separate_ports if port_proc else united_ports
    masks = ("leaf{n}.dc", "spine{m}.dc") if not swap_masks else ("spine{m}.dc", "leaf{n}.dc")
    regs = []
    regs.append(lambda: reg.direct(masks[0], masks[1], port_processor=pp)(hs[0]))
    if not swap_masks:
        regs.append(lambda: reg.direct("leaf{n}.dc", "spine{m:\\d+}.dc", Left.n < Right.m.cast_(int), port_processor=pp)(hs[1]))
    else:
        regs.append(lambda: reg.direct("spine{m:\\d+}.dc", "leaf{n}.dc", Right.n < Left.m.cast_(int), port_processor=pp)(hs[1]))
    regs.append(lambda: reg.direct(masks[0], masks[1], port_processor=pp)(hs[2]))
    for i in order:
        regs[i]()
    if with_indirect:
        def h_ind(left, right, session):
            leaf, rr = (left, right) if left.device.fqdn.startswith("leaf") else (right, left)
            leaf.addr = "192.168.0.1/32"
            rr.addr = "192.168.0.3/32"
            leaf.asnum = 65001
            rr.asnum = 65001
            rr.ifname = "eth9"
            session.families = {"ipv4_unicast"}
        reg.indirect("leaf{n}.dc", "rr{k}.dc")(h_ind)
    if with_virtual:
        def h_virt(local, virtual, session):
            local.svi = 50
            local.addr = "172.16.0.1/24"
            virtual.addr = "172.16.0.%d" % virtual.num
            session.asnum = 65100
            session.families = {"ipv4_unicast"}
        reg.virtual("leaf{n}.dc", num=[10, 11])(h_virt)
    return reg


def run_exec(order, nlinks, kind, conflict, swap_masks, port_proc, with_indirect, with_virtual, who):
    from annet.mesh import MeshExecutor
    st, a, b, c = build_world(nlinks)
    dev = {"A": a, "B": b, "C": c}[who]
    reg = make_registry(order, kind, conflict, swap_masks, port_proc, with_indirect, with_virtual)
    try:
        res = MeshExecutor(reg, st).execute_for(dev)
    except ValueError as e:
        return ("ValueError", str(e)[:80].split("`")[0]), dev
    peers = []
    for p in res.peers:
        o = p.options
        peers.append({
            "addr": p.addr, "interface": p.interface, "remote_as": int(p.remote_as), "hostname": p.hostname,
            "families": sorted(p.families), "vrf": p.vrf_name, "import": p.import_policy, "export": p.export_policy,
            "local_as": int(o.local_as) if o and o.local_as is not None else None,
            "mtu": o.mtu if o else None, "add_path": o.add_path if o else None, "bfd": o.bfd if o else None,
        })
    peers.sort(key=lambda d: (d["hostname"], d["addr"]))
    ifaddrs = {i.name: list(i.addrs) for i in dev.interfaces if i.addrs}
    return ("ok", peers, ifaddrs, sorted(dev.log)), dev


def _link_of(ifname, prefix):
    m = re.match(r"^%s(\d+)(?:\.\d+)?$" % prefix, ifname or "")
    return int(m.group(1)) if m else None


# rules whose two masks match BOTH devices of a pair (the orientation is not fixed): each end applies the rule in both
# orientations, so whatever the handler makes of (left, right) both ends see the same set of sessions
def run_sym(who, filt, indirect, svi):
    from annet.mesh import MeshRulesRegistry, MeshExecutor
    from annet.mesh.match_args import Left, Right
    st, a, b, c = build_world(1)
    reg = MeshRulesRegistry()

    def h(left, right, session):
        left.addr = "10.%d.%d.0/31" % (left.match.n, right.match.n)
        right.addr = "10.%d.%d.1/31" % (left.match.n, right.match.n)
        left.asnum = 65000 + left.match.n
        right.asnum = 65000 + right.match.n
        session.families = {"ipv4_unicast"}
        if indirect:
            left.ifname = right.ifname = "lo0"
        elif svi:
            left.svi = right.svi = 100 + left.match.n
    args = [Left.n != Right.n] if filt else []
    if indirect:
        reg.indirect("{x:[a-z]+}{n}.dc", "{x:[a-z]+}{n}.dc", *args)(h)
    else:
        reg.direct("{x:[a-z]+}{n}.dc", "{x:[a-z]+}{n}.dc", *args)(h)
    dev = {"A": a, "B": b}[who]
    res = MeshExecutor(reg, st).execute_for(dev)
    peers = [{"addr": p.addr, "interface": p.interface, "remote_as": int(p.remote_as), "hostname": p.hostname,
              "local_as": int(p.options.local_as) if p.options and p.options.local_as is not None else None} for p in res.peers]
    return peers, {i.name: list(i.addrs) for i in dev.interfaces if i.addrs}


def check_sym(cs):
    from ipaddress import ip_interface
    try:
        pa, ia = run_sym("A", cs["filt"], cs["indirect"], cs["svi"])
        pb, ib = run_sym("B", cs["filt"], cs["indirect"], cs["svi"])
    except Exception as e:  # noqa
        return False, {"error": repr(e)}, "sym:exception:%s" % type(e).__name__, True
    pa = [p for p in pa if p["hostname"] == B]
    pb = [p for p in pb if p["hostname"] == A]
    own_a = set(str(ip_interface(ad).ip) for v in ia.values() for ad, _ in v)
    own_b = set(str(ip_interface(ad).ip) for v in ib.values() for ad, _ in v)
    if not pa or len(pa) != len(pb):
        return False, {"A": pa, "B": pb}, "sym:peer-count-differs", True
    for (x, own, other) in [(x, own_b, pb) for x in pa] + [(y, own_a, pa) for y in pb]:
        if x["addr"] not in own:
            return False, {"peer": x, "other_end_addresses": sorted(own), "A": pa, "B": pb}, "sym:addr-not-mirrored", True
        if not any(y["local_as"] == x["remote_as"] and y["remote_as"] == x["local_as"] for y in other):
            return False, {"peer": x, "other_end": other}, "sym:as-not-mirrored", True
    return True, None, None, True


# ---------------------------------------------------------------- one device in several sessions
# a hub with three leaves: the session-level data of one pair must not depend on which other pairs the same device has
# (each end runs a different sequence of handler calls)
def run_many(who, kind, which):
    from annet.mesh import MeshRulesRegistry, MeshExecutor
    hub = FDevice("rr1.dc", [FInterface("lo0")])
    leaves = [FDevice("leaf%d.dc" % i, [FInterface("lo0")]) for i in (1, 2, 3)]
    if kind == "direct":
        for i, lf in enumerate(leaves):
            hub.interfaces.append(FInterface("et%d" % i, lf.fqdn, "up0"))
            lf.interfaces.append(FInterface("up0", hub.fqdn, "et%d" % i))
    st = FStorage()
    st.devices = [hub] + leaves
    reg = MeshRulesRegistry()

    def h(leaf, rr, session):
        n = leaf.match.n
        if kind == "indirect":
            # a legal but non-canonical spelling (upper-case hex, zero-padded groups): the peer address is the canonical one
            leaf.addr = "2001:DB8:0000:%d::0001/127" % n
            rr.addr = "2001:DB8:0000:%d::0/127" % n
        else:
            leaf.addr = "10.0.%d.1/31" % n
            rr.addr = "10.0.%d.0/31" % n
        leaf.asnum = 65000 + n
        rr.asnum = 64512
        session.families = {"ipv4_unicast"}
        if kind == "indirect":
            leaf.ifname = rr.ifname = "lo0"
        if n == which:
            # only ONE of the pairs sets these session fields
            session.bfd = True
            session.add_path = True
            session.families = {"ipv4_unicast", "ipv6_unicast"}
    if kind == "direct":
        reg.direct("leaf{n}.dc", "rr{k}.dc")(h)
    else:
        reg.indirect("leaf{n}.dc", "rr{k}.dc")(h)
    dev = {d.fqdn: d for d in st.devices}[who]
    res = MeshExecutor(reg, st).execute_for(dev)
    out = {}
    for p in res.peers:
        o = p.options
        out[p.hostname] = {"addr": p.addr, "families": sorted(p.families), "bfd": o.bfd if o else None,
                           "add_path": o.add_path if o else None, "remote_as": int(p.remote_as)}
    return out


def check_many(cs):
    kind, which = cs["kind"], cs["which"]
    try:
        hub = run_many("rr1.dc", kind, which)
        ends = {i: run_many("leaf%d.dc" % i, kind, which) for i in (1, 2, 3)}
    except Exception as e:  # noqa
        return False, {"error": repr(e)}, "many:exception:%s" % type(e).__name__, True
    for i in (1, 2, 3):
        a = hub.get("leaf%d.dc" % i)
        b = ends[i].get("rr1.dc")
        if a is None or b is None:
            return False, {"hub": hub, "leaf": ends[i], "pair": i}, "many:peer-missing", True
        want_leaf, want_hub = ("2001:db8:0:%d::1" % i, "2001:db8:0:%d::" % i) if kind == "indirect" else ("10.0.%d.1" % i, "10.0.%d.0" % i)
        if a["addr"] != want_leaf or b["addr"] != want_hub:
            return False, {"pair": "rr1-leaf%d" % i, "hub_points_at": a["addr"], "leaf_address": want_leaf,
                           "leaf_points_at": b["addr"], "hub_address": want_hub}, "many:peer-address-not-the-other-ends-address", True
        for f in ("families", "bfd", "add_path"):
            if a[f] != b[f]:
                return False, {"pair": "rr1-leaf%d" % i, "field": f, "on_hub": a, "on_leaf": b, "set_only_for_leaf": which}, \
                    "many:session-options-differ", True
        want = (i == which)
        if bool(a["bfd"]) != want or bool(b["bfd"]) != want:
            return False, {"pair": "rr1-leaf%d" % i, "on_hub": a, "on_leaf": b, "set_only_for_leaf": which}, \
                "many:session-data-of-another-pair", True
    return True, None, None, True


MANY = [{"kind": k, "which": w} for k in ("direct", "indirect") for w in (1, 2, 3)]


def h_many(case: int) -> bool:
    """
    pre: 0 <= case < len(MANY)
    post: _ == True
    """
    c = pick(case, len(MANY))
    with NoTracing():
        ok, detail, kind, nt = check_many(MANY[c])
        rt.record({"many": c}, ok, [c], detail=detail, fingerprint="C15:exec:%s" % kind)
    return ok


SYM = [{"filt": f, "indirect": i, "svi": s_} for f in (False, True) for (i, s_) in ((False, False), (False, True), (True, False))]


def h_sym(case: int) -> bool:
    """
    pre: 0 <= case < len(SYM)
    post: _ == True
    """
    c = pick(case, len(SYM))
    with NoTracing():
        ok, detail, kind, nt = check_sym(SYM[c])
        rt.record({"sym": c}, ok, [c], detail=detail, fingerprint="C15:exec:%s" % kind)
    return ok


def check_exec(cs):
    from ipaddress import ip_interface
    perms = list(itertools.permutations(range(3)))
    kind = KINDS[cs["kind"]]
    base = None
    results = {}
    for order in perms:
        for who in ("A", "B"):
            r, _ = run_exec(order, cs["nlinks"], kind, cs["conflict"], cs["swap"], cs["pp"], cs["ind"], cs["virt"], who)
            results[(order, who)] = r
    # 1. registration-order independence
    for who in ("A", "B"):
        first = results[(perms[0], who)]
        for order in perms[1:]:
            r = results[(order, who)]
            if (first[0] == "ok") != (r[0] == "ok"):
                return False, {"who": who, "order0": str(first)[:300], "order": list(order), "result": str(r)[:300]}, "order-dependent-outcome", True
            if first[0] == "ok" and (r[1] != first[1] or r[2] != first[2]):
                return False, {"who": who, "order": list(order), "first": first[1], "this": r[1]}, "order-dependent-result", True
    ra, rb = results[(perms[0], "A")], results[(perms[0], "B")]
    if ra[0] != "ok" or rb[0] != "ok":
        # both ends must agree that the configuration is invalid
        if (ra[0] == "ok") != (rb[0] == "ok") and cs["nlinks"] > 0:
            return False, {"A": str(ra)[:300], "B": str(rb)[:300]}, "one-side-only-error", True
        return True, None, None, False
    # 2. mirror
    pa = [p for p in ra[1] if p["hostname"] == B]
    pb = [p for p in rb[1] if p["hostname"] == A]
    if cs["nlinks"] == 0:
        if pa or pb:
            return False, {"A": pa, "B": pb}, "peer-without-link", True
    else:
        if len(pa) != len(pb) or not pa:
            return False, {"A": ra[1], "B": rb[1]}, "peer-count-differs", True
        for x in pa:
            # the address A points at must be configured on the interface B uses for the reverse peer
            mates = [y for y in pb if any(str(ip_interface(ad).ip) == x["addr"] for ad, _ in rb[2].get(y["interface"], []))]
            if len(mates) != 1:
                return False, {"peer_on_A": x, "B_peers": pb, "B_ifaddrs": rb[2]}, "addr-not-mirrored", True
            y = mates[0]
            if x["remote_as"] != y["local_as"] or y["remote_as"] != x["local_as"]:
                return False, {"A": x, "B": y}, "as-not-mirrored", True
            if x["families"] != y["families"] or x["add_path"] != y["add_path"] or x["bfd"] != y["bfd"]:
                return False, {"A": x, "B": y}, "session-options-differ", True
            if not any(str(ip_interface(ad).ip) == y["addr"] for ad, _ in ra[2].get(x["interface"], [])):
                return False, {"A": x, "B": y, "A_ifaddrs": ra[2]}, "addr-not-mirrored", True
            # a session on a physical port / sub-interface sits on the two ends of ONE link
            la, lb = _link_of(x["interface"], "et"), _link_of(y["interface"], "xe")
            if len(pa) == 1 and la is not None and lb is not None and la != lb:
                return False, {"A": x, "B": y}, "session-ends-on-different-links", True
        # 3. interface selection
        want_if = {"port": "et0", "lag": "Trunk1", "subif": "et0.100", "svi": "Vlan10", "lag+subif": "Trunk1.7"}[kind]
        for x in pa:
            if kind == "port" and cs["pp"]:
                if not x["interface"].startswith("et"):
                    return False, {"A": x}, "wrong-interface", True
            elif kind == "subif" and cs["pp"]:
                if not (x["interface"].startswith("et") and x["interface"].endswith(".100")):
                    return False, {"A": x}, "wrong-interface", True
            elif x["interface"] != want_if:
                return False, {"A": x, "want": want_if}, "wrong-interface", True
        if kind.startswith("lag"):
            lags = [l for l in ra[3] if l[0] == "lag"]
            ports = tuple(sorted("et%d" % i for i in range(cs["nlinks"])))
            if not lags or any(l[1] != 1 for l in lags) or (not cs["pp"] and lags[0][2] != ports):
                return False, {"lags": lags, "want_ports": ports}, "lag-members-wrong", True
    if cs["ind"]:
        rc, _ = run_exec(perms[0], cs["nlinks"], kind, cs["conflict"], cs["swap"], cs["pp"], cs["ind"], cs["virt"], "C")
        ia = [p for p in ra[1] if p["hostname"] == C]
        ic = [p for p in rc[1] if p["hostname"] == A] if rc[0] == "ok" else None
        if len(ia) != 1 or not ic or len(ic) != 1:
            return False, {"A": ia, "C": str(rc)[:300]}, "indirect-peer-missing", True
        if ia[0]["addr"] != "192.168.0.3" or ic[0]["addr"] != "192.168.0.1" or ic[0]["interface"] != "eth9" \
                or ia[0]["remote_as"] != ic[0]["local_as"] or ia[0]["families"] != ic[0]["families"]:
            return False, {"A": ia, "C": ic}, "indirect-not-mirrored", True
    if cs["virt"]:
        va = [p for p in ra[1] if p["hostname"] == ""]
        if sorted(p["addr"] for p in va) != ["172.16.0.10", "172.16.0.11"] or any(p["interface"] != "Vlan50" for p in va):
            return False, {"virtual": va}, "virtual-peers-wrong", True
    return True, None, None, True


RAD = [3, len(KINDS), 2, 2, 2, 2, 2]
NEXEC = 1
for _r in RAD:
    NEXEC *= _r
ELO, EHI = rt.shard_range(NEXEC)


def _decode(c):
    d = digits(c, RAD)
    return {"nlinks": d[0], "kind": d[1], "conflict": bool(d[2]), "swap": bool(d[3]), "pp": bool(d[4]), "ind": bool(d[5]),
            "virt": bool(d[6])}


def h_exec(case: int) -> bool:
    """
    pre: ELO <= case < EHI
    post: _ == True
    """
    c = pick(case, EHI, ELO)
    with NoTracing():
        cs = _decode(c)
        try:
            ok, detail, kind, nt = check_exec(cs)
        except Exception as e:  # noqa
            import traceback
            ok, detail, kind, nt = False, {"error": repr(e), "tb": traceback.format_exc()[-600:]}, "exception:%s" % type(e).__name__, True
        rt.record(cs, ok, cs if nt else None, detail=detail, fingerprint="C15:exec:%s" % kind)
    return ok


# ---------------------------------------------------------------- name templates (E-Z3: language of the compiled template)
TEMPLATES = ["leaf{n}.dc", "spine{m:\\d+}.dc", "l{n}.d{x:[a-c]+}", "{x:.*}", "dev{num}.example.com", "dev_{x:.*}",
             "{pod}-{unit}s{x:[0-9a-f]}", "a{n}b{n2}c", "{h:[a-z]+}{n}"]


def ref_template_regex(t):
    """own reading of the template language: {name} -> one or more digits, {name:re} -> re, everything else verbatim"""
    out = []
    i = 0
    while i < len(t):
        if t[i] == "{":
            j = t.index("}", i)
            body = t[i + 1:j]
            if ":" in body:
                name, rx = body.split(":", 1)
                out.append("(?P<%s>%s)" % (name, rx))
            else:
                out.append("(?P<%s>\\d+)" % body)
            i = j + 1
        else:
            out.append(t[i])
            i += 1
    return "".join(out)


def z_templates():
    import re
    import z3
    from vt import rx2z3 as rx
    from annet.mesh.match_args import PeerNameTemplate
    S = rx.Solver(timeout_ms=20000)
    host = z3.Union(z3.Range("a", "z"), z3.Range("0", "9"), z3.Re("."), z3.Re("-"), z3.Re("_"))
    dom = z3.Star(host)
    fails = 0
    for t in TEMPLATES:
        pt = PeerNameTemplate(t)
        L_real = rx.fullmatch_lang(pt._regex)
        refsrc = ref_template_regex(t)
        L_ref = rx.fullmatch_lang(re.compile(refsrc))
        r, model = S.check(z3.InRe(S.x, dom), z3.Xor(z3.InRe(S.x, L_real), z3.InRe(S.x, L_ref)))
        r2, wit = S.check(z3.InRe(S.x, dom), z3.InRe(S.x, L_real))
        ok = r == "unsat" and r2 == "sat"
        types_ok = True
        if ok:
            w = rx.z3_unescape(wit)
            got = pt.match(w)
            m = re.fullmatch(refsrc, w)
            types_ok = got is not None and m is not None and all(
                (type(got[k]) is int and got[k] == int(v)) if ("{%s}" % k) in t else got[k] == v for k, v in m.groupdict().items())
        rt.record({"template": t, "host": rx.z3_unescape(model) if model else None}, ok and types_ok, ["tpl", t],
                  detail={"compiled": pt._regex.pattern, "reference": refsrc, "verdict": r, "witness": wit},
                  fingerprint="C15:template:%s" % t)
        if not (ok and types_ok):
            fails += 1
    return {"verdict": "refuted" if fails else "confirmed", "queries": S.queries, "solver_s": round(S.solver_s, 3)}


def h_twin(case: int) -> bool:
    """
    pre: 0 <= case < NEXEC
    post: _ == True
    """
    # reachability twin: "execute_for never raises ValueError" must be refuted (conflicting handlers exist in the space)
    c = pick(case, NEXEC)
    with NoTracing():
        cs = _decode(c)
        r, _ = run_exec((0, 1, 2), cs["nlinks"], KINDS[cs["kind"]], cs["conflict"], cs["swap"], cs["pp"], cs["ind"], cs["virt"], "A")
        ok = r[0] == "ok"
        rt.record(cs, ok, c)
    return ok


def plan(tier):
    q = tier == "quick"
    return [
        dict(name="merge.flat", func="h_merge", shards=9 if q else 25, timeout=280 if q else 2400, per_path=60),
        dict(name="merge.assoc", func="h_merge_assoc", shards=12 if q else 60, timeout=280 if q else 2400, per_path=60),
        dict(name="merge.nested", func="h_merge_nested", shards=12 if q else 64, timeout=280 if q else 2400, per_path=60),
        dict(name="merge.none", func="h_merge_none", shards=1, timeout=100),
        dict(name="merge.dict", func="h_merge_dict", shards=1, timeout=200 if q else 900, per_path=60),
        dict(name="template", func="z_templates", kind="py", shards=1, timeout=150 if q else 900),
        dict(name="exec", func="h_exec", shards=16, timeout=280 if q else 1200),
        dict(name="exec.symmetric", func="h_sym", shards=1, timeout=100),
        dict(name="exec.hub", func="h_many", shards=1, timeout=100),
        dict(name="twin", func="h_twin", shards=1, timeout=100, expect="refuted"),
    ]


def replay(obligation, case):
    if obligation in ("merge.flat", "merge.assoc"):
        return replay_merge(case)
    if obligation == "merge.nested":
        a, b = _mk_family(*case["a"]), _mk_family(*case["b"])
        bad = _nested_laws(a, b)
        return {"ok": not bad, "detail": {"violated": bad}, "fingerprint": "C15:merge-nested:%s" % (bad[0] if bad else "")}
    if obligation == "merge.none":
        bad, detail = check_none(case["a"], case["b"])
        return {"ok": not bad, "detail": detail, "fingerprint": "C15:merge:%s" % (bad[0] if bad else "")}
    if obligation == "merge.dict":
        return {"ok": True, "detail": "dict replay not implemented", "fingerprint": None}
    if obligation == "template":
        import re
        from annet.mesh.match_args import PeerNameTemplate
        t, host = case["template"], case["host"]
        if host is None:
            return {"ok": False, "detail": "language query inconclusive or empty", "fingerprint": "C15:template:%s" % t}
        a = PeerNameTemplate(t).match(host) is not None
        b = re.fullmatch(ref_template_regex(t), host) is not None
        return {"ok": a == b, "detail": {"template": t, "host": host, "annet": a, "reference": b}, "fingerprint": "C15:template:%s" % t}
    if "many" in case:
        ok, detail, kind, _ = check_many(MANY[case["many"]])
        return {"ok": ok, "detail": detail, "fingerprint": "C15:exec:%s" % kind}
    if "sym" in case:
        ok, detail, kind, _ = check_sym(SYM[case["sym"]])
        return {"ok": ok, "detail": detail, "fingerprint": "C15:exec:%s" % kind}
    ok, detail, kind, _ = check_exec(case)
    return {"ok": ok, "detail": detail, "fingerprint": "C15:exec:%s" % kind}
