"""C05 — offside rule.  See DESIGN.md §C05.

A  h_stacked_K   : real `_stripped_indents` + `_stacked` executed symbolically; `_parsed_indents` is replaced by a
                   generator yielding (n_i, label_i) / (0, BlockEnd) / (0, _CommentOrEmpty) where n_i are UNBOUNDED
                   symbolic ints >= 0 and the kind of each line is a selector.  Compared with RefOffside.
B  h_line        : `_parse_indent` / `_filtered_lines` / `_parsed_indents` on ONE symbolic ASCII line (len <= L).
C  h_text_K      : the unstubbed `parse_to_tree(text, CommonFormatter().split)` on texts chosen by selectors.
"""
import os
from typing import List

from crosshair.tracers import NoTracing
from crosshair.core import deep_realize

from vt import rt
from vt.common import pick, digits
from vt.oracles import offside as ref

from annet.annlib import tabparser

META = {
    "property_id": "C05",
    "level": "other",
    "functions": [
        "annet/annlib/tabparser.py:_stripped_indents", "annet/annlib/tabparser.py:_stacked",
        "annet/annlib/tabparser.py:_parsed_indents", "annet/annlib/tabparser.py:_parse_indent",
        "annet/annlib/tabparser.py:_filtered_lines", "annet/annlib/tabparser.py:parse_to_tree",
        "annet/annlib/tabparser.py:CommonFormatter.split",
    ],
    "bounds": {
        "quick": {"A": "K<=5 lines, indent widths unbounded symbolic ints >=0, kind in {text,skip,reset}",
                  "B": "one ASCII line, len<=4", "C": "K<=4 lines over indent{0,1,2,3,5} x 2 words + blank/!/# lines"},
        "thorough": {"A": "K<=6 lines, unbounded widths", "B": "one ASCII line, len<=5",
                     "C": "K<=5 lines over indent{0,1,2,3,5} x 2 words + blank/!/# lines"},
    },
    "rule": "A: one CrossHair path per feasible ordering of the symbolic columns and kinds; non-trivial = at least one "
            "nested line or a rejected text; distinct by (kinds, order type of columns, outcome). C: one path per text; "
            "non-trivial = tree with depth>=2 or ParserError; distinct by text.",
    "explanation": "Bounded symbolic verification: CrossHair executes annet's indentation stack machine on symbolic "
                   "integer indent widths (no upper bound) for every line-kind vector up to K lines and z3 decides each "
                   "path condition; CONFIRMED means every feasible path inside the bound satisfied equality with the "
                   "reference offside parser (same paths, ParserError exactly when the reference rejects).",
    "assumptions": [
        "A: _parsed_indents replaced by a stub yielding symbolic (indent, label) pairs; labels are distinct per line "
        "(merging of identical lines is covered by C through the unstubbed parse_to_tree)",
        "tabs and spaces count one column each (annet's definition, adopted by the reference)",
        "B: line restricted to ASCII",
    ],
    "outside": ["more than K lines", "non-ASCII whitespace in obligation B", "texts with vendor-specific splitters (C04)"],
}


# ---------------------------------------------------------------- A
def _real_paths(kinds, indents):
    def stub(lines, comments):
        for i in range(len(kinds)):
            k = kinds[i]
            if k == ref.TEXT:
                yield (indents[i], "L%d" % i)
            elif k == ref.RESET:
                yield (0, tabparser.BlockEnd)
            else:
                yield (0, tabparser._CommentOrEmpty)
    saved = tabparser._parsed_indents
    tabparser._parsed_indents = stub
    try:
        return ("ok", list(tabparser._stacked([], ("!", "#"))))
    except tabparser.ParserError:
        return ("error", None)
    finally:
        tabparser._parsed_indents = saved


def _ref_paths(kinds, indents):
    try:
        return ("ok", ref.ref_paths([(kinds[i], indents[i], "L%d" % i) for i in range(len(kinds))]))
    except ref.RefError:
        return ("error", None)


def _check_A(kinds, indents):
    real = _real_paths(kinds, indents)
    want = _ref_paths(kinds, indents)
    return real == want, real, want


def _stacked_body(kinds, indents):
    ks = [pick(k, 3) for k in kinds]
    ok, real, want = _check_A(ks, indents)
    ci = None
    if not ok:
        ci = deep_realize(indents)
    with NoTracing():
        nontriv = None
        if real[0] == "error" or any(len(p) > 1 for p in (real[1] or [])):
            nontriv = [ks, str(real)]
        rt.record({"kinds": ks, "indents": ci}, ok, nontriv,
                  detail={"real": str(real), "ref": str(want)},
                  fingerprint="C05:A:stacked-vs-offside")
    return ok


def h_stacked(kinds: List[int], indents: List[int]) -> bool:
    """
    pre: 1 <= len(kinds) <= KMAX and len(indents) == len(kinds)
    pre: all(0 <= k <= 2 for k in kinds) and all(n >= 0 for n in indents)
    pre: rt.in_shard(kinds[0] * 3 + (kinds[1] if len(kinds) > 1 else 0))
    post: _ == True
    """
    return _stacked_body(kinds, indents)


def h_stacked_twin(kinds: List[int], indents: List[int]) -> bool:
    """
    pre: len(kinds) == 3 and len(indents) == 3
    pre: all(0 <= k <= 2 for k in kinds) and all(n >= 0 for n in indents)
    post: _ == True
    """
    # reachability twin: "no text is ever rejected" must be refuted
    ks = [pick(k, 3) for k in kinds]
    real = _real_paths(ks, indents)
    ok = real[0] == "ok"
    ci = None
    if not ok:
        ci = deep_realize(indents)
    with NoTracing():
        rt.record({"kinds": ks, "indents": ci}, ok, [ks, rt.paths])
    return ok



KMAX = int(os.environ.get("VT_K", "5"))


# ---------------------------------------------------------------- B
def h_line(line: str) -> bool:
    """
    pre: len(line) <= LMAX and line.isascii() and chr(10) not in line
    post: _ == True
    """
    real = list(tabparser._parsed_indents([line], ("!", "#")))
    # reference by construction, no str-scanning loops on the symbolic string
    n = len(line) - len(line.lstrip(" \t"))
    body = line.strip()
    if line.startswith("#"):
        want = [(0, tabparser.BlockEnd)]
        kind = "reset"
    elif len(body) == 0 or body.startswith("!") or body.startswith("#"):
        want = [(0, tabparser._CommentOrEmpty)]
        kind = "skip"
    else:
        want = [(n, body)]
        kind = "text"
    ok = real == want
    cl = None
    if not ok:
        cl = deep_realize(line)
    with NoTracing():
        # one record per path condition; the line itself stays symbolic unless the path fails
        rt.record({"line": cl, "kind": kind, "path": rt.paths}, ok, [kind, rt.paths], detail={"kind": kind},
                  fingerprint="C05:B:line-classification")
    return ok


LMAX = int(os.environ.get("VT_L", "4"))

# ---------------------------------------------------------------- C
_INDENTS = [0, 1, 2, 3, 5]
_WORDS = ["a", "b x"]
_SPECIAL = ["", "  ! c", "#", "   # c"]
NOPT = len(_INDENTS) * len(_WORDS) + len(_SPECIAL)
KTEXT = int(os.environ.get("VT_KTEXT", "4"))
NTEXT = NOPT ** KTEXT
LO, HI = rt.shard_range(NTEXT)


def _line_of(sel):
    if sel < len(_INDENTS) * len(_WORDS):
        return " " * _INDENTS[sel // len(_WORDS)] + _WORDS[sel % len(_WORDS)]
    return _SPECIAL[sel - len(_INDENTS) * len(_WORDS)]


def check_text(sels):
    text = "\n".join(_line_of(s) for s in sels)
    from annet.annlib.tabparser import parse_to_tree, CommonFormatter, ParserError
    try:
        real = ("ok", _plain(parse_to_tree(text, CommonFormatter().split)))
    except ParserError:
        real = ("error", None)
    try:
        want = ("ok", ref.ref_parse(text))
    except ref.RefError:
        want = ("error", None)
    ok = real == want and (real[0] == "error" or _order(real[1]) == _order(want[1]))
    return ok, text, real, want


def _plain(t):
    return {k: _plain(v) for k, v in t.items()}


def _order(t):
    return [(k, _order(v)) for k, v in t.items()]


def h_text(case: int) -> bool:
    """
    pre: LO <= case < HI
    post: _ == True
    """
    c = pick(case, HI, LO)
    with NoTracing():
        cs = digits(c, [NOPT] * KTEXT)
        ok, text, real, want = check_text(cs)
        nontriv = None
        if real[0] == "error" or any(v for v in (real[1] or {}).values()):
            nontriv = text
        rt.record({"sels": cs, "text": text}, ok, nontriv, detail={"real": str(real), "ref": str(want)},
                  fingerprint="C05:C:parse_to_tree-vs-offside")
    return ok


# ----------------------------------------------------------------
def plan(tier):
    if tier == "quick":
        return [
            dict(name="A.stacked", func="h_stacked", shards=9, timeout=170, env={"VT_K": 5},
                 bound="K<=5, unbounded indents"),
            dict(name="A.twin", func="h_stacked_twin", shards=1, timeout=60, expect="refuted"),
            dict(name="B.line", func="h_line", shards=1, timeout=150, env={"VT_L": 4}, bound="len<=4 ASCII"),
            dict(name="C.text", func="h_text", shards=16, timeout=170, env={"VT_KTEXT": 4}, bound="K<=4 lines"),
        ]
    return [
        dict(name="A.stacked", func="h_stacked", shards=9, timeout=1500, env={"VT_K": 6}, bound="K<=6, unbounded indents"),
        dict(name="A.twin", func="h_stacked_twin", shards=1, timeout=60, expect="refuted"),
        dict(name="B.line", func="h_line", shards=1, timeout=900, env={"VT_L": 5}, bound="len<=5 ASCII"),
        dict(name="C.text", func="h_text", shards=48, timeout=1500, env={"VT_KTEXT": 5}, bound="K<=5 lines"),
    ]


def replay(obligation, case):
    if obligation.startswith("A"):
        ok, real, want = _check_A(case["kinds"], case["indents"])
        return {"ok": ok, "detail": {"real": str(real), "ref": str(want)}, "fingerprint": "C05:A:stacked-vs-offside"}
    if obligation.startswith("B"):
        line = case["line"]
        real = list(tabparser._parsed_indents([line], ("!", "#")))
        k = ref.classify(line)
        want = [(0, tabparser.BlockEnd)] if k == ref.RESET else [(0, tabparser._CommentOrEmpty)] if k == ref.SKIP \
            else [(ref.indent_of(line), line.strip())]
        return {"ok": real == want, "detail": {"real": str(real), "ref": str(want)},
                "fingerprint": "C05:B:line-classification"}
    ok, text, real, want = check_text(case["sels"])
    return {"ok": ok, "detail": {"text": text, "real": str(real), "ref": str(want)},
            "fingerprint": "C05:C:parse_to_tree-vs-offside"}
