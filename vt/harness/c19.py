"""C19 — file-based devices: winner by priority, upload iff changed (or forced), reload only when enabled.  DESIGN.md §C19."""
import os
from typing import List

from crosshair.tracers import NoTracing
from crosshair.core import deep_realize

from vt import rt
from vt.common import pick, digits

META = {
    "property_id": "C19",
    "level": "other",
    "technique": "CrossHair/z3 with unbounded symbolic generator priorities (add_entire) + solver-certified exhaustion of the "
                 "bounded generator/old-file/flag space through run_file_generators, PCDeployerJob.parse_result and pc_diff",
    "functions": [
        "annet/generators/result.py:RunGeneratorResult.add_entire", "annet/generators/result.py:RunGeneratorResult.new_files",
        "annet/generators/__init__.py:run_file_generators", "annet/generators/__init__.py:_run_entire_generator",
        "annet/generators/entire.py:Entire.__call__", "annet/generators/entire.py:Entire.get_reload_cmds",
        "annet/api/__init__.py:PCDeployerJob.parse_result", "annet/diff.py:pc_diff", "annet/diff.py:_diff_files",
        "annet/diff.py:UnifiedFileDiffer.diff_file", "annet/types.py:OldNewResult.get_new_files",
    ],
    "rule": "prio: one path per ordering of the symbolic priorities x listing permutation x path assignment; flow: one path per "
            "(generator set, listing order, old files, reload flag, safe flag) index; non-trivial = at least one file uploaded "
            "or two generators compete for a path",
    "explanation": "Bounded symbolic verification: the priorities of three Entire generators are unbounded symbolic integers "
                   "(pairwise distinct), compared only by annet's own `>`; every listing permutation and path assignment is "
                   "decided by z3 path by path and the result is compared with argmax.  The upload/reload/diff decisions are "
                   "checked for every element of the stated finite space.",
    "assumptions": ["annet.deploy.get_deployer stubbed by a driver returning empty configuration/exit command lists",
                    "file contents drawn from {absent, AAA, empty, leading-blank AAA, trailing-blank AAA, multi-line, BBB} (difflib hashes lines: contents stay concrete)",
                    "default UnifiedFileDiffer; device hw 'PC' with soft 'Cumulus Linux 5.4.0' (reload commands get the etckeeper suffix) and a plain 'PC' whose third generator has an empty reload command", "generator priorities are class attributes, sets (0,70,300) / (300,70,0) / (70,300,0) / (100,300,200)"],
    "outside": ["JSON fragment generators (C13)", "FrrFileDiffer rulebook-based diff", "more than 3 generators / 2 paths"],
    "bounds": {"quick": "3 generators, 2 paths, unbounded distinct priorities; flow: 3 generators x 2 paths x 3 contents x 3 old contents^2 x 3 reload flags x safe",
               "thorough": "same with 4 content choices, all 4 priority sets and 4 is_safe vectors"},
}


# ---------------------------------------------------------------- A: symbolic priorities
def _mk_result(name, path, prio, output, is_safe=True):
    from annet.types import GeneratorEntireResult
    return GeneratorEntireResult(name=name, tags=[], path=path, output=output, reload="reload " + name, prio=prio,
                                 perf=None, is_safe=is_safe)


PERMS = [(0, 1, 2), (0, 2, 1), (1, 0, 2), (1, 2, 0), (2, 0, 1), (2, 1, 0)]


def _winner_check(prios, perm_i, path_sel):
    from annet.generators.result import RunGeneratorResult
    paths = ["/etc/a" if (path_sel >> i) & 1 == 0 else "/etc/b" for i in range(3)]
    res = RunGeneratorResult()
    for g in PERMS[perm_i]:
        res.add_entire(_mk_result("g%d" % g, paths[g], prios[g], "out-%d" % g))
    files = res.new_files()
    ok = True
    for p in ("/etc/a", "/etc/b"):
        cands = [g for g in range(3) if paths[g] == p]
        if not cands:
            if p in files:
                ok = False
            continue
        best = cands[0]
        for g in cands[1:]:
            if prios[g] > prios[best]:
                best = g
        if p not in files or files[p] != ("out-%d" % best, "reload g%d" % best):
            ok = False
    return ok, paths


def h_prio(p0: int, p1: int, p2: int, perm: int, path_sel: int) -> bool:
    """
    pre: p0 != p1 and p1 != p2 and p0 != p2
    pre: 0 <= perm < 6 and 0 <= path_sel < 8
    post: _ == True
    """
    pi = pick(perm, 6)
    ps = pick(path_sel, 8)
    ok, paths = _winner_check([p0, p1, p2], pi, ps)
    cs = None
    if not ok:
        cs = deep_realize({"prios": [p0, p1, p2], "perm": pi, "path_sel": ps})
    with NoTracing():
        rt.record(cs or {"perm": pi, "path_sel": ps, "path": rt.paths}, ok,
                  [pi, ps, rt.paths] if len(set(paths)) < 3 else None, fingerprint="C19:add_entire:winner-not-argmax")
    return ok


# ---------------------------------------------------------------- B: full flow
# "" = "this file must be empty"; "  AAA" differs from "AAA" only by leading whitespace of the whole text
CONTENTS = ["AAA\n", "", "  AAA\n", "AAA  \n", "line1\nline2\nline3\n", "BBB\n"]
NCONT = 3 if rt.TIER == "quick" else 4
OLDS = [None] + CONTENTS[:NCONT]
RELOAD = ["yes", "no", "force"]
PRIOSETS = [(0, 70, 300), (300, 70, 0), (70, 300, 0), (100, 300, 200)]


class _StubDriver:
    def build_configuration_cmdlist(self, hw, do_finalize=True, do_commit=True):
        from annet.annlib.command import CommandList
        return CommandList(), CommandList()

    def build_exit_cmdlist(self, hw):
        return []


class _Storage:
    def flush_perf(self):
        return {}


class _Dev:
    def __init__(self, plain=False):
        from annet.annlib.netdev.views.hardware import HardwareView
        # plain: a PC whose reload commands get no etckeeper suffix (an empty reload command stays empty)
        self.hw = HardwareView("PC", "" if plain else "Cumulus Linux 5.4.0")
        self.hostname = "pc1"
        self.fqdn = "pc1.example"
        self.id = 1
        self.breed = "pc"


class _Args:
    def __init__(self, reload_flag, safe):
        from annet import cli_args
        self.entire_reload = cli_args.EntireReloadFlag(reload_flag)
        self.acl_safe = safe


def _mk_gen(idx, path, prio, content, safe, reload_text=None):
    from annet.generators import Entire
    reload_text = ("systemctl reload g%d" % idx) if reload_text is None else reload_text

    class G(Entire):
        def path(self, device):
            return path

        def run(self, device):
            yield content.rstrip("\n") if content else ""

        def reload(self, device):
            return reload_text

        def is_safe(self, device):
            return safe
    G.__name__ = "G%d" % idx
    # the priority is a class attribute, as in real generators (Entire.__init__ only supplies the default)
    G.prio = prio
    return G(_Storage())


def check_flow(cs):
    import annet.deploy
    from annet import api
    from annet.generators import run_file_generators
    from annet.types import OldNewResult
    from annet.diff import pc_diff
    plain = bool(cs.get("plain"))
    dev = _Dev(plain)
    paths = ["/etc/a" if (cs["path_sel"] >> i) & 1 == 0 else "/etc/b" for i in range(3)]
    prios = PRIOSETS[cs["prioset"]]
    safes = [bool((cs["safe_sel"] >> i) & 1) for i in range(3)]
    conts = [CONTENTS[c] for c in cs["contents"]]
    # on the plain PC generators 0 and 1 share ONE reload command (two files of one service) and generator 2 has none at all
    reloads = ["systemctl reload svc", "systemctl reload svc", ""] if plain else [None, None, None]
    gens = [_mk_gen(i, paths[i], prios[i], conts[i], safes[i], reloads[i]) for i in range(3)]
    order = PERMS[cs["perm"]]
    saved = annet.deploy.get_deployer
    annet.deploy.get_deployer = lambda: _StubDriver()
    try:
        res = run_file_generators([gens[i] for i in order], dev)
        safe = cs["safe"]
        new_files = res.new_files(safe=safe)
        old_files = {}
        for p, o in zip(("/etc/a", "/etc/b"), cs["olds"]):
            if OLDS[o] is not None:
                old_files[p] = OLDS[o]
        onr = OldNewResult(device=dev, new_files=res.new_files(), safe_new_files=res.new_files(safe=True), old_files=old_files)
        job = api.PCDeployerJob(dev, _Args(RELOAD[cs["reload"]], safe))
        job.parse_result(onr)
        got = job.deploy_cmds.get(dev)
        diffs = list(pc_diff(dev.hw, dev.hostname, old_files, new_files))
    except Exception as e:  # noqa
        return False, {"error": repr(e)}, "exception:%s" % type(e).__name__, True
    finally:
        annet.deploy.get_deployer = saved
    # reference
    want_new = {}
    for p in ("/etc/a", "/etc/b"):
        cands = [i for i in range(3) if paths[i] == p]
        if not cands:
            continue
        best = max(cands, key=lambda i: prios[i])
        if safe and not safes[best]:
            continue
        text = (conts[best].rstrip("\n") if conts[best] else "")
        want_new[p] = (text, best)
    force = RELOAD[cs["reload"]] == "force"
    enable = RELOAD[cs["reload"]] != "no"

    def differs(old, new):
        return (old.splitlines() if old else []) != (new.splitlines() if new else [])
    want_files = {p: t.encode() for p, (t, _) in want_new.items() if differs(old_files.get(p), t) or force}
    detail = {"paths": paths, "prios": prios, "safes": safes, "contents": conts, "old_files": old_files,
              "new_files": {k: v for k, v in new_files.items()}}
    got_new = {p: v[0] for p, v in new_files.items()}
    if got_new != {p: t for p, (t, _) in want_new.items()}:
        return False, dict(detail, want_new={p: t for p, (t, _) in want_new.items()}), "new_files-not-from-winner", True
    got_files = dict(got["files"]) if got else {}
    if got_files != want_files:
        return False, dict(detail, uploaded={k: v.decode() for k, v in got_files.items()},
                           want={k: v.decode() for k, v in want_files.items()}), "upload-set-differs", True
    got_cmds = set(got["cmds"]) if got else set()
    if got_cmds != (set(want_files) if enable else set()):
        return False, dict(detail, cmds=sorted(got_cmds), want=sorted(want_files) if enable else []), "reload-attachment-differs", True
    if got and enable:
        for p in want_files:
            want_cmd = ("systemctl reload g%d" % want_new[p][1]) if reloads[want_new[p][1]] is None else reloads[want_new[p][1]]
            if want_cmd.encode() not in got["cmds"][p] or (want_cmd == "" and got["cmds"][p].strip()):
                return False, dict(detail, cmds={k: v.decode() for k, v in got["cmds"].items()}), "reload-from-wrong-generator", True
    diff_paths = set(d.label.split(os.sep, 1)[1] if not d.label.startswith("/") else d.label for d in diffs)
    diff_paths = set("/" + x.split("/", 1)[1] if not x.startswith("/") else x for x in diff_paths)
    want_diff = set(p for p, (t, _) in want_new.items() if differs(old_files.get(p), t))
    if diff_paths != want_diff:
        return False, dict(detail, diff_for=sorted(diff_paths), want=sorted(want_diff)), "pc_diff-differs", True
    return True, None, None, bool(want_files)


PATHSEL = [0, 1, 2, 6] if rt.TIER == "quick" else list(range(8))
SAFEMODES = [(False, 7), (True, 7), (True, 5), (True, 2)] if rt.TIER == "quick" else \
    [(False, 7)] + [(True, m) for m in (0, 2, 5, 7)]
C3 = NCONT
RAD = [len(PATHSEL), 3 if rt.TIER == "quick" else len(PRIOSETS), 6, 2, 2, C3, len(OLDS), len(OLDS) - 1, 3, len(SAFEMODES), 2]
NFLOW = 1
for _r in RAD:
    NFLOW *= _r
FLO, FHI = rt.shard_range(NFLOW)


def _decode_flow(c):
    d = digits(c, RAD)
    safe, sel = SAFEMODES[d[9]]
    return {"path_sel": PATHSEL[d[0]], "prioset": d[1], "perm": d[2], "contents": d[3:6], "olds": d[6:8], "reload": d[8],
            "safe": safe, "safe_sel": sel, "plain": d[10]}


def h_flow(case: int) -> bool:
    """
    pre: FLO <= case < FHI
    post: _ == True
    """
    c = pick(case, FHI, FLO)
    with NoTracing():
        cs = _decode_flow(c)
        ok, detail, kind, nt = check_flow(cs)
        rt.record(cs, ok, cs if nt else None, detail=detail, fingerprint="C19:flow:%s" % kind)
    return ok


def h_twin(case: int) -> bool:
    """
    pre: 0 <= case < 200
    post: _ == True
    """
    # reachability twin: "nothing is ever uploaded" must be refuted
    c = pick(case, 200)
    with NoTracing():
        import annet.deploy
        from annet import api
        from annet.types import OldNewResult
        cs = _decode_flow(c * 7919 % NFLOW)
        dev = _Dev()
        saved = annet.deploy.get_deployer
        annet.deploy.get_deployer = lambda: _StubDriver()
        try:
            job = api.PCDeployerJob(dev, _Args("yes", False))
            job.parse_result(OldNewResult(device=dev, new_files={"/etc/a": ("x", "r")}, old_files={}))
        finally:
            annet.deploy.get_deployer = saved
        ok = not job.deploy_cmds
        rt.record(cs, ok, c)
    return ok


def plan(tier):
    q = tier == "quick"
    return [
        dict(name="prio.symbolic", func="h_prio", shards=1, timeout=200 if q else 900, bound="3 generators, unbounded distinct priorities"),
        dict(name="flow", func="h_flow", shards=16 if q else 48, timeout=280 if q else 2400),
        dict(name="twin", func="h_twin", shards=1, timeout=60, expect="refuted"),
    ]


def replay(obligation, case):
    if obligation.startswith("prio"):
        ok, _ = _winner_check(case["prios"], case["perm"], case["path_sel"])
        return {"ok": ok, "detail": case, "fingerprint": "C19:add_entire:winner-not-argmax"}
    ok, detail, kind, _ = check_flow(case)
    return {"ok": ok, "detail": detail, "fingerprint": "C19:flow:%s" % kind}
