"""C04 — vendor text and config trees round-trip for every supported vendor.  See DESIGN.md §C04."""
import os
from collections import OrderedDict as odict

from crosshair.tracers import NoTracing

from vt import rt
from vt.common import pick, digits, tree_to_json
from vt.space import S, count, unrank

META = {
    "property_id": "C04",
    "level": "exploration",
    "technique": "CrossHair/z3-certified exhaustion of bounded per-vendor tree spaces through the real formatter.join / split / "
                 "parse_to_tree and gen.format_config_blocks",
    "functions": [
        "annet/annlib/tabparser.py:CommonFormatter.join", "annet/annlib/tabparser.py:CommonFormatter._indent_blocks",
        "annet/annlib/tabparser.py:CommonFormatter.blocks_and_context", "annet/annlib/tabparser.py:BlockExitFormatter.split_remove_spaces",
        "annet/annlib/tabparser.py:HuaweiFormatter.split", "annet/annlib/tabparser.py:CiscoFormatter.split",
        "annet/annlib/tabparser.py:CiscoFormatter._split_indent", "annet/annlib/tabparser.py:AsrFormatter.split",
        "annet/annlib/tabparser.py:JuniperFormatter.split", "annet/annlib/tabparser.py:JuniperFormatter.join",
        "annet/annlib/tabparser.py:JuniperFormatter._formatted_blocks", "annet/annlib/tabparser.py:NokiaFormatter.split",
        "annet/annlib/tabparser.py:RosFormatter.split", "annet/annlib/tabparser.py:RosFormatter.join",
        "annet/annlib/tabparser.py:RosFormatter.blocks_and_context", "annet/annlib/tabparser.py:parse_to_tree",
        "annet/gen.py:format_config_blocks", "annet/vendors/library/*.py:make_formatter",
    ],
    "rule": "one path per (vendor, tree, sibling order) index; non-trivial = tree depth >= 2; distinct by index",
    "explanation": "",
    "assumptions": ["well-formed domain per vendor: rows of printable words without that vendor's syntax delimiters; Cisco "
                    "'address-family' blocks end with their 'exit-address-family' row (as on devices); RouterOS: section words "
                    "then leaf rows; Nokia: no top-level row 'configure'",
                    "row alphabets contain the awkward-but-legal cases (rows starting with if/else/xpl/route-policy/address-family/"
                    "end-…/quit/exit, rows with several words, negated rows, a Juniper-like row whose later words start with '##'); RouterOS neighbouring sections may hold equal content"],
    "outside": ["Juniper comments/annotations", "RouterOS file / ssh-key splitters", "texts not produced by join",
                "rows with leading/trailing or doubled blanks"],
    "bounds": {},
}

VENDORS = ["huawei", "h3c", "optixtrans", "cisco", "nexus", "iosxr", "arista", "aruba", "b4com", "juniper", "ribbon", "nokia",
           "routeros", "pc"]
MODELS = {"huawei": "Huawei", "h3c": "H3C", "optixtrans": "Huawei DC", "cisco": "Cisco Catalyst", "nexus": "Cisco Nexus",
          "iosxr": "Cisco XR", "arista": "Arista", "aruba": "Aruba", "b4com": "B4com", "juniper": "Juniper", "ribbon": "Ribbon",
          "nokia": "Nokia", "routeros": "RouterOS", "pc": "PC"}


def words(vendor, tier):
    """(L1, L2, L3, L4) row alphabets per level"""
    L1 = ["interface X", "router bgp 1", "a"]
    L2 = ["description x y", "address-family ipv4", "no shutdown"]
    L3 = ["network 1", "if x then"]
    L4 = ["set y", "exit"]
    if vendor in ("huawei", "h3c", "optixtrans"):
        L1 = ["interface X", "xpl route-filter F", "undo a"]
        L2 = ["description x y", "if x then", "quit x"]
        L3 = ["apply y", "else z"]
    if vendor in ("cisco",):
        L2 = ["description x y", "neighbor n", "no shutdown"]
    if vendor == "iosxr":
        L1 = ["interface X", "route-policy P", "prefix-set S"]
        L2 = ["description x y", "if a then b", "no shutdown"]
        L3 = ["pass", "end-policy x"]
    if vendor in ("juniper", "ribbon", "nokia"):
        L1 = ["interfaces", "protocols bgp", "system host-name x"]
        # a row whose later words start with "##" (Nokia's end-of-line comment mark is " ##" in device output only)
        L2 = ["description ## x ##", "group TOR", "inactive: neighbor fe80::1"]
        L3 = ["peer-as 65000.1", "family inet"]
        L4 = ["unicast", "delete x"]
    if vendor == "routeros":
        return None
    if tier == "quick":
        return L1, L2[:2], L3, L4[:1]
    return L1, L2, L3, L4


def slots_for(vendor, tier):
    if vendor == "routeros":
        leaf = [S(["add name=x"]), S(["set a=b c=d"])]
        # neighbouring sections may hold EQUAL content (group / ssh-keys2, ip / ipv6)
        sub = [S(["group"], leaf), S(["ssh-keys2"], leaf)] if tier != "quick" else [S(["group"], leaf[:1]), S(["ssh-keys2"], leaf[:1] + leaf[1:])]
        return [S(["user"], leaf + sub), S(["system"], [S(["logging"], leaf[:1] + [S(["action"], leaf[1:])])]), S(["ip"], [S(["address"], leaf)]),
                S(["ipv6"], [S(["address"], leaf)])]
    L1, L2, L3, L4 = words(vendor, tier)
    l4 = [S([w]) for w in L4]
    l3 = [S([L3[0]], l4)] + [S([w]) for w in L3[1:]]
    l2 = [S([L2[0]])] + [S([L2[1]], l3)] + [S([w]) for w in L2[2:]]
    out = [S([L1[0]], l2), S([L1[1]], l2[:2]), S([L1[2]])]
    if vendor == "cisco":
        af = S(["address-family ipv4"], [S(["network 1"]), S(["neighbor n activate"])])
        out[1] = S([L1[1]], l2[:2] + [af])
    return out


ROS_SECTIONS = {"user", "group", "ssh-keys2", "system", "logging", "action", "ip", "ipv6", "address"}


def fix_domain(vendor, t):
    """close Cisco address-family blocks the way devices print them"""
    if vendor == "routeros":
        # sections exist only through the leaf rows they hold
        out = odict()
        for k, v in t.items():
            if k in ROS_SECTIONS:
                sub = fix_domain(vendor, v)
                if sub:
                    out[k] = sub
            else:
                out[k] = odict()
        return out
    if vendor != "cisco":
        return t
    out = odict()
    for k, v in t.items():
        sub = fix_domain(vendor, v)
        if k.startswith("address-family"):
            sub["exit-address-family"] = odict()
        out[k] = sub
    return out


def _seq(t):
    return [[k, _seq(v)] for k, v in (t or {}).items()]


def _depth(t):
    return 0 if not t else 1 + max(_depth(v) for v in t.values())


_fmt = {}


def fmt_of(vendor):
    if vendor not in _fmt:
        from annet.annlib.netdev.views.hardware import HardwareView
        from annet.vendors import registry_connector
        hw = HardwareView(MODELS[vendor], None)
        v = registry_connector.get().match(hw)
        _fmt[vendor] = (hw, v.make_formatter(), v.NAME)
    return _fmt[vendor]


def check_tree(vendor, t):
    from annet.annlib.tabparser import parse_to_tree
    from annet import gen as ann_gen
    hw, fmt, vname = fmt_of(vendor)
    base = {"vendor": vendor, "registry_vendor": vname, "tree": tree_to_json(t)}
    try:
        text = fmt.join(t)
        back = parse_to_tree(text, fmt.split)
    except Exception as e:  # noqa
        return False, dict(base, error=repr(e)), "exception:%s" % type(e).__name__, True
    if _seq(back) != _seq(t):
        return False, dict(base, text=text, parsed=tree_to_json(back)), "parse-of-join-differs", True
    text2 = fmt.join(back)
    if text2 != text:
        return False, dict(base, text=text, rejoined=text2), "join-not-a-fixed-point", True
    try:
        t3 = parse_to_tree(text2, fmt.split)
    except Exception as e:  # noqa
        return False, dict(base, error=repr(e)), "exception:%s" % type(e).__name__, True
    if _seq(t3) != _seq(t):
        return False, dict(base, text=text2, parsed=tree_to_json(t3)), "second-parse-differs", True
    # what `annet gen` prints
    g = ann_gen.format_config_blocks(t, hw, "  ")
    if _seq(parse_to_tree(g, fmt.split)) != _seq(t):
        return False, dict(base, text=g), "format_config_blocks-not-parsable-back", True
    return True, None, None, _depth(t) >= 2


VI = int(os.environ.get("VT_VENDOR", "0"))
VENDOR = VENDORS[VI]
SLOTS = slots_for(VENDOR, rt.TIER)
N = count(SLOTS)
LO, HI = rt.shard_range(N * 3)


def _rev_all(t):
    return odict((k, _rev_all(v)) for k, v in reversed(list(t.items())))


def _mk(vendor, slots, idx, rev):
    """rev: 0 = schema order, 1 = top level reversed, 2 = every level reversed (e.g. sub-sections before leaf rows)"""
    t = unrank(slots, idx)
    if rev == 1:
        t = odict(reversed(list(t.items())))
    elif rev == 2:
        t = _rev_all(t)
    return fix_domain(vendor, t)


def h_roundtrip(case: int) -> bool:
    """
    pre: LO <= case < HI
    post: _ == True
    """
    c = pick(case, HI, LO)
    with NoTracing():
        idx, rev = c // 3, c % 3
        t = _mk(VENDOR, SLOTS, idx, rev)
        ok, detail, kind, nt = check_tree(VENDOR, t)
        rt.record({"vendor": VENDOR, "idx": idx, "rev": rev, "tier": rt.TIER}, ok, [VENDOR, idx, rev] if nt else None, detail=detail,
                  fingerprint="C04:%s:%s" % (VENDOR, kind))
    return ok


def h_twin(case: int) -> bool:
    """
    pre: 0 <= case < N
    post: _ == True
    """
    # reachability twin: "join never produces an indented line" must be refuted
    c = pick(case, N)
    with NoTracing():
        hw, fmt, _ = fmt_of(VENDOR)
        text = fmt.join(_mk(VENDOR, SLOTS, c, 0))
        ok = not any(ln.startswith(" ") for ln in text.split("\n"))
        rt.record({"c": c}, ok, c)
    return ok


def plan(tier):
    q = tier == "quick"
    obs = []
    for vi, v in enumerate(VENDORS):
        obs.append(dict(name="roundtrip[%s]" % v, func="h_roundtrip", shards=(8 if v == "routeros" else 2) if q else (16 if v == "routeros" else 6),
                        timeout=280 if q else 1500, env={"VT_VENDOR": vi}))
    obs.append(dict(name="twin", func="h_twin", shards=1, timeout=100, expect="refuted", env={"VT_VENDOR": 0}))
    return obs


def replay(obligation, case):
    v = case["vendor"]
    t = _mk(v, slots_for(v, case.get("tier", "quick")), case["idx"], case["rev"])
    ok, detail, kind, _ = check_tree(v, t)
    return {"ok": ok, "detail": detail, "fingerprint": "C04:%s:%s" % (v, kind)}
