"""C03 — the diff is a faithful, lossless description of old versus new.  See DESIGN.md §C03."""
import os
from collections import OrderedDict as odict

from crosshair.tracers import NoTracing

from vt import rt
from vt.common import pick, digits, make_rb, tree_to_json
from vt.space import PB, S, P, count, unrank
from vt.oracles import device as refdev

META = {
    "property_id": "C03",
    "level": "exploration",
    "technique": "CrossHair/z3-certified exhaustion of bounded (rulebook family, old, new) spaces through the real make_diff / "
                 "strip_unchanged / make_pre / formatter.diff / gen_pre_as_diff against RefDiff and two independent readers",
    "functions": [
        "annet/annlib/patching.py:make_diff", "annet/annlib/patching.py:apply_diff_rb", "annet/annlib/patching.py:mark_unchanged",
        "annet/annlib/patching.py:strip_unchanged", "annet/annlib/patching.py:make_pre",
        "annet/annlib/rulebook/common.py:call_diff_logic", "annet/annlib/rulebook/common.py:base_diff",
        "annet/annlib/rulebook/common.py:default_diff", "annet/annlib/rulebook/common.py:ordered_diff",
        "annet/annlib/rulebook/common.py:rewrite_diff", "annet/annlib/tabparser.py:CommonFormatter._diff_lines",
        "annet/annlib/tabparser.py:JuniperFormatter (diff rendering)", "annet/annlib/diff.py:gen_pre_as_diff",
        "annet/annlib/filter_acl.py:shift_op", "annet/annlib/filter_acl.py:tree_to_diff", "annet/annlib/filter_acl.py:get_op",
    ],
    "rule": "one path per (family, old, new) index; non-trivial = stripped diff non-empty; distinct by index",
    "explanation": "",
    "assumptions": ["rulebooks use only the standard diff logics (default, %ordered, %rewrite)",
                    "an unchanged %rewrite group is absent from the diff by design; the projection re-adds such rows only when old "
                    "and new agree on them",
                    "rows contain no leading sign characters", "families D1 (default), D2 (%ordered leaves), D3 (%rewrite), D4 (%ordered blocks); the diff worker of `annet diff` is driven with old_new / get_rulebook stood in"],
    "outside": ["vendor %diff_logic functions", "%multiline", "ignore_case rules",
                "old-side ORDER of %ordered rows that the diff marks MOVED or REMOVED (the merged listing keeps the new position "
                "of kept rows only; see DESIGN.md C03)"],
    "bounds": {},
}

FAMS = {
    "D1": ("""
a
x *
b *
    c
    d *
    n *
        c
""", [S(["a", "a v"]), S(["b k1"], [S(["c v1", "c v2"]), S(["d k1"]), S(["q2"]), S(["n k1"], [S(["c v1"]), S(["q3"])])])]
    if rt.TIER == "quick" else
    [S(["a", "a v"]), S(["x k1", "x k1 v"]), S(["q"]), S(["b k1"], [S(["c v1", "c v2"]), S(["d k1"]), S(["q2"]), S(["n k1"], [S(["c v1"]), S(["q3"])])])]),
    "D2": ("""
o *
    r ~ %ordered
    c
t ~ %ordered
""", [S(["o k1"], [P(["r 1", "r 2", "r 3"]), S(["c v1"])]), P(["t 1", "t 2"])]
    if rt.TIER == "quick" else
    [S(["o k1"], [P(["r 1", "r 2", "r 3"]), S(["c v1", "c v2"])]), P(["t 1", "t 2"]), S(["q"])]),
    "D3": ("""
rp *
    ~ %rewrite %global
a
""", [S(["rp k1"], [P(["s 1", "s 2"]), S(["if x"], [P(["s 3", "s 4"], maxlen=2)])]), S(["a", "a v"])]),
    # %ordered rows that are BLOCKS: a block can be moved and edited inside in the same change
    "D4": ("""
pm *
    cl * %ordered
        ~
""", [S(["pm k1"], [PB(["cl 1", "cl 2", "cl 3"], [S(["s 1", "s 2"])] + ([] if rt.TIER == "quick" else [S(["p"])]),
                        maxlen=3 if rt.TIER == "quick" else 2)])]),
    # a rule compared case-insensitively beside ordinary rules whose rows carry upper-case letters
    "D5": ("""
ic ~ %ignore_case
description ~
b *
    ic ~ %ignore_case
    name ~
""", [S(["ic x"]), S(["description UPLINK", "description uplink", "description Uplink B"]),
      S(["b k1"], [S(["ic y"]), S(["name Core", "name core"])])]),
    # %rewrite bodies below %ordered block rows
    "D6": ("""
pm *
    cl * %ordered
        ~ %rewrite
""", [S(["pm k1"], [PB(["cl 1", "cl 2", "cl 3"], [P(["s 1", "s 2"])], maxlen=2 if rt.TIER == "quick" else 3)])]),
}
FAM = os.environ.get("VT_FAM", "D1")
TEXT, SLOTS = FAMS[FAM]
N = count(SLOTS)
LO, HI = rt.shard_range(N * N)
_ctx = {}


def ctx(fam):
    if fam not in _ctx:
        text = FAMS[fam][0]
        from vt.common import make_hw, StubDevice
        _ctx[fam] = {"rb": make_rb(text, "huawei"), "root": refdev.Level.root(refdev.parse_rules(text)),
                     "dev": StubDevice(make_hw("huawei"))}
    return _ctx[fam]


# ---------------------------------------------------------------- RefDiff helpers
def restrict(t, level):
    """t restricted to rows some rule matches (recursively)"""
    out = odict()
    for row, sub in (t or {}).items():
        r, k, child = level.match(row)
        if r is not None:
            out[row] = restrict(sub, child)
    return out


def _is(level, row, flag):
    r, _, _ = level.match(row)
    return r is not None and r.flag(flag)


def project(diff, side, old, new, level, parent_op=None):
    """reconstruct one input from the diff: drop ADDED entries for 'old', REMOVED for 'new'"""
    from annet.annlib.types import Op
    out = odict()
    drop = Op.ADDED if side == "old" else Op.REMOVED
    src = old if side == "old" else new
    shown_rewrite = any(_is(level, row, "rewrite") for (_, row, _, _) in diff)
    for (op, row, children, _m) in diff:
        if op == drop:
            continue
        r, k, child = level.match(row)
        out[row] = project(children, side, (old or {}).get(row), (new or {}).get(row), child, op) if child else odict()
    if not shown_rewrite and parent_op not in (Op.MOVED, Op.ADDED, Op.REMOVED):
        # an unchanged %rewrite group is omitted from the diff: legitimate only if both sides agree on it AND the enclosing
        # row stays in place (a moved row is dropped and re-created, so its body has to be listed)
        ro = [(row, refdev._plain((old or {})[row])) for row in (old or {}) if _is(level, row, "rewrite")]
        rn = [(row, refdev._plain((new or {})[row])) for row in (new or {}) if _is(level, row, "rewrite")]
        if ro == rn:
            for row, _ in ro:
                out[row] = restrict(src[row], level.match(row)[2])
    return out


def same_tree(a, b, level):
    return refdev.same_config(a, b, level)


def same_old(po, ro, diff, level):
    """old side: same rows and nesting; %ordered rows in the same relative order EXCEPT rows the diff marks MOVED
    (a MOVED entry records the new position only, its old position is by construction not in the diff)"""
    from annet.annlib.types import Op
    po, ro = po or {}, ro or {}
    if set(po) != set(ro):
        return False
    # rows whose old position the listing does not carry: MOVED (new position only) and REMOVED (placed by their old
    # index among entries placed by their new index)
    moved = set(row for (op, row, _c, _m) in diff if op in (Op.MOVED, Op.REMOVED))
    a = [r for r in po if _is(level, r, "ordered") and r not in moved]
    b = [r for r in ro if _is(level, r, "ordered") and r not in moved]
    if a != b:
        return False
    sub = {row: ch for (op, row, ch, _m) in diff}
    for row in po:
        r, k, child = level.match(row)
        if child is None:
            continue
        if not same_old(po[row], ro[row], sub.get(row, []), child):
            return False
    return True


def check_ops(diff, old, new, level, parent_op=None):
    """ops are exact: ADDED iff absent from old, REMOVED iff absent from new (at that parent)"""
    from annet.annlib.types import Op
    old, new = old or {}, new or {}
    for (op, row, children, _m) in diff:
        in_old, in_new = row in old, row in new
        if op == Op.ADDED and in_old and parent_op != Op.ADDED:
            return "added-but-present-in-old", row
        if op == Op.REMOVED and in_new and parent_op != Op.REMOVED:
            return "removed-but-present-in-new", row
        if op in (Op.AFFECTED, Op.UNCHANGED, Op.MOVED) and not (in_old and in_new):
            return "kept-but-missing-on-one-side", row
        if op == Op.UNCHANGED and refdev._plain(old.get(row)) != refdev._plain(restrict_keep(new.get(row), old.get(row))):
            pass
        r, k, child = level.match(row)
        bad = check_ops(children, old.get(row), new.get(row), child, op) if child else None
        if bad:
            return bad
    return None


def restrict_keep(a, b):
    return a


def check_moved(diff, old, new, level):
    """%ordered rows: MOVED iff the relative order changed (RefDiff); returns (kind, row) or None"""
    from annet.annlib.types import Op
    old, new = old or {}, new or {}
    ordered_old = [r for r in old if _is(level, r, "ordered")]
    ordered_new = [r for r in new if _is(level, r, "ordered")]
    common_old = [r for r in ordered_old if r in new]
    common_new = [r for r in ordered_new if r in old]
    for (op, row, children, _m) in diff:
        if _is(level, row, "ordered") and row in old and row in new:
            # relative order w.r.t. the other common rows
            before_old = set(common_old[:common_old.index(row)])
            before_new = set(common_new[:common_new.index(row)])
            # a row added before it in new also forces re-creation (appended lists)
            idx_new = ordered_new.index(row)
            inserted_before = any(r not in old for r in ordered_new[:idx_new])
            moved_before = False
            changed = before_old != before_new or inserted_before
            if changed and op != Op.MOVED:
                return "order-changed-but-not-MOVED", row
            if not changed and op == Op.MOVED:
                # tolerated only if an earlier common row was itself displaced (its followers are re-created)
                earlier_changed = any(set(common_old[:common_old.index(r)]) != set(common_new[:common_new.index(r)])
                                      or any(x not in old for x in ordered_new[:ordered_new.index(r)])
                                      for r in common_new[:common_new.index(row)])
                removed_before = any(r not in new for r in ordered_old[:ordered_old.index(row)])
                if not earlier_changed:
                    return ("MOVED-without-order-change:after-removal" if removed_before else "MOVED-without-order-change"), row
        r, k, child = level.match(row)
        if child and row in old and row in new:
            bad = check_moved(children, old[row], new[row], child)
            if bad:
                return bad
    return None


# ---------------------------------------------------------------- readers of the textual views
SIGN = {"-": "removed", "+": "added", ">": "moved", " ": "affected"}


def parse_signed(lines, indent, block_begin="", block_end="", stmt_end=""):
    """own reader of formatter.diff(): '<sign> <indent*level><row>' """
    root = []
    stack = [(-1, root)]
    for ln in lines:
        sign, body = ln[0], ln[2:]
        lvl = 0
        while indent and body.startswith(indent):
            body = body[len(indent):]
            lvl += 1
        if block_end and body == block_end:
            continue
        if block_begin and body.endswith(block_begin):
            body = body[:-len(block_begin)]
        elif stmt_end and body.endswith(stmt_end):
            body = body[:-len(stmt_end)]
        while stack[-1][0] >= lvl:
            stack.pop()
        node = [SIGN[sign], body, []]
        stack[-1][1].append(node)
        stack.append((lvl, node[2]))
    return root


def plain_diff(diff):
    return [[str(op.value if hasattr(op, "value") else op), row, plain_diff(ch)] for (op, row, ch, _m) in diff]


def parse_pre_view(lines, indent):
    """reader of gen_pre_as_diff(): '<sign><indent*level> <row>\\n' -> per parent path multiset of (op,row)"""
    out = {}
    path = []
    for ln in lines:
        ln = ln.rstrip("\n")
        sign, rest = ln[0], ln[1:]
        lvl = 0
        while rest.startswith(indent) and not rest.startswith(" " + rest[1:].lstrip(" ")[:0] + "") and False:
            pass
        n = len(rest) - len(rest.lstrip(" "))
        lvl = (n - 1) // len(indent)
        row = rest[n:]
        path = path[:lvl]
        out.setdefault(tuple(path), []).append((SIGN[sign], row))
        path.append(row)
    return {k: sorted(v) for k, v in out.items()}


def level_multisets(pd, path=()):
    out = {}
    if pd:
        out[path] = sorted((op, row) for (op, row, ch) in pd)
    for (op, row, ch) in pd:
        out.update(level_multisets(ch, path + (row,)))
    return out


def check_pair(fam, old, new):
    from annet.annlib import patching, filter_acl
    from annet.annlib.tabparser import parse_to_tree, HuaweiFormatter, JuniperFormatter, CommonFormatter
    from annet.annlib.diff import gen_pre_as_diff
    c = ctx(fam)
    base = {"family": fam, "old": tree_to_json(old), "new": tree_to_json(new)}
    import copy
    o0, n0 = copy.deepcopy(old), copy.deepcopy(new)
    try:
        diff = patching.make_diff(old, new, c["rb"], [])
    except Exception as e:  # noqa
        return False, dict(base, error=repr(e)), "exception:%s" % type(e).__name__, False
    if refdev._plain(old) != refdev._plain(o0) or refdev._plain(new) != refdev._plain(n0):
        return False, base, "inputs-mutated", True
    level = c["root"]
    ro, rn = restrict(old, level), restrict(new, level)
    po, pn = project(diff, "old", old, new, level), project(diff, "new", old, new, level)
    if not same_old(po, ro, diff, level):
        return False, dict(base, diff=plain_diff(diff), projected=tree_to_json(po), want=tree_to_json(ro)), "old-not-reconstructible", True
    if not same_tree(pn, rn, level):
        return False, dict(base, diff=plain_diff(diff), projected=tree_to_json(pn), want=tree_to_json(rn)), "new-not-reconstructible", True
    bad = check_ops(diff, ro, rn, level)
    if bad:
        return False, dict(base, diff=plain_diff(diff), row=bad[1]), "op-inexact:%s" % bad[0], True
    bad = check_moved(diff, ro, rn, level)
    if bad:
        return False, dict(base, diff=plain_diff(diff), row=bad[1]), "ordered:%s" % bad[0], True
    stripped = patching.strip_unchanged(diff)
    if refdev._plain(old) == refdev._plain(new) and [k for k in old] == [k for k in new] and _same_order(old, new) and stripped:
        return False, dict(base, diff=plain_diff(stripped)), "self-diff-not-empty", True
    want = plain_diff(stripped)
    # textual views
    for name, fmt, kw in (("huawei", HuaweiFormatter(indent="  "), {}),
                          ("juniper", JuniperFormatter(), {"block_begin": " {", "block_end": "}", "stmt_end": ";"})):
        lines = fmt.diff(stripped)
        mine = parse_signed(lines, fmt._indent, **kw)
        if mine != want:
            return False, dict(base, view=name, lines=lines, parsed=mine, want=want), "diff-view-loses-information:%s" % name, True
        if name == "huawei":
            try:
                back = filter_acl.tree_to_diff(parse_to_tree(filter_acl.shift_op("\n".join(lines)), fmt.split))
                back = plain_diff(back)
            except Exception as e:  # noqa
                back = "exception %r" % e
            if back != want:
                return False, dict(base, view=name, lines=lines, annet_reader=back, want=want), "diff-view-unreadable-by-annet", True
    pre = patching.make_pre(stripped)
    text = list(gen_pre_as_diff(pre, False, "  ", True))
    got = parse_pre_view(text, "  ")
    if got != level_multisets(want):
        return False, dict(base, lines=text, parsed={"/".join(k): v for k, v in got.items()},
                           want={"/".join(k): v for k, v in level_multisets(want).items()}), "pre-view-loses-information", True
    ok, detail, kind, _nt = check_worker(fam, o0, n0)
    if not ok:
        return ok, detail, kind, True
    return True, None, None, bool(stripped)


class _Res:
    """what annet.gen.old_new hands to the diff worker for one device"""

    def __init__(self, dev, old, new):
        self.device, self._old, self._new = dev, old, new
        self.old_files, self.old_json_fragment_files, self.filter_acl_rules = {}, {}, None

    def get_old(self, safe):
        return self._old

    def get_new(self, safe):
        return self._new

    def get_acl_rules(self, safe):
        return None

    def get_new_files(self, safe):
        return {}

    def get_new_file_fragments(self, safe):
        return {}


class _Args:
    acl_safe = False
    config = "running"
    clear = False


def check_worker(fam, old, new):
    """the device front end of `annet diff` (annet.diff.worker) shows exactly the entries make_diff reports"""
    import copy
    import annet.diff
    import annet.rulebook
    from annet.annlib import patching
    c = ctx(fam)
    base = {"family": fam, "old": tree_to_json(old), "new": tree_to_json(new)}
    want = plain_diff(patching.strip_unchanged(patching.make_diff(copy.deepcopy(old), copy.deepcopy(new), c["rb"], [])))
    saved = (annet.diff.old_new, annet.rulebook.get_rulebook)
    annet.diff.old_new = lambda *a, **kw: iter([_Res(c["dev"], copy.deepcopy(old), copy.deepcopy(new))])
    annet.rulebook.get_rulebook = lambda hw: c["rb"]
    try:
        got = annet.diff.worker("dev1", _Args(), None, None, None)
    except Exception as e:  # noqa
        return False, dict(base, error=repr(e)), "worker:exception:%s" % type(e).__name__, True
    finally:
        annet.diff.old_new, annet.rulebook.get_rulebook = saved
    got = plain_diff(got) if got is not None else []
    if got != want:
        return False, dict(base, worker_shows=got, make_diff_reports=want), "worker-diff-differs-from-make_diff", True
    return True, None, None, bool(want)


def _same_order(a, b):
    for k in a:
        if list(a[k].keys()) != list(b[k].keys()) or not _same_order(a[k], b[k]):
            return False
    return True


def h_diff(case: int) -> bool:
    """
    pre: LO <= case < HI
    post: _ == True
    """
    c = pick(case, HI, LO)
    with NoTracing():
        i, j = c % N, c // N
        ok, detail, kind, nt = check_pair(FAM, unrank(SLOTS, i), unrank(SLOTS, j))
        rt.record({"family": FAM, "i": i, "j": j}, ok, [FAM, i, j] if nt else None, detail=detail, fingerprint="C03:%s" % kind)
    return ok


def h_twin(case: int) -> bool:
    """
    pre: 0 <= case < N * N
    post: _ == True
    """
    # reachability twin: "no diff ever contains a MOVED entry" must be refuted (family D2)
    c = pick(case, N * N)
    with NoTracing():
        from annet.annlib import patching
        from annet.annlib.types import Op
        d = patching.make_diff(unrank(SLOTS, c % N), unrank(SLOTS, c // N), ctx(FAM)["rb"], [])

        def has_moved(x):
            return any(op == Op.MOVED or has_moved(ch) for (op, _r, ch, _m) in x)
        ok = not has_moved(d)
        rt.record({"c": c}, ok, c)
    return ok


def plan(tier):
    q = tier == "quick"
    obs = []
    for f, sh in (("D1", 16), ("D2", 12), ("D3", 6), ("D4", 12), ("D5", 2), ("D6", 8)):
        obs.append(dict(name="diff.%s" % f, func="h_diff", shards=sh if q else sh * 2, timeout=280 if q else 2400, env={"VT_FAM": f}))
    obs.append(dict(name="twin", func="h_twin", shards=1, timeout=100, expect="refuted", env={"VT_FAM": "D2"}))
    return obs


def replay(obligation, case):
    slots = FAMS[case["family"]][1]
    ok, detail, kind, _ = check_pair(case["family"], unrank(slots, case["i"]), unrank(slots, case["j"]))
    return {"ok": ok, "detail": detail, "fingerprint": "C03:%s" % kind}
